"""C13 — measurement-based inventory: estimation windows tile the simulated period.

Lean: Props/C13.lean (C13, C13_complementary, C13_split_sum, C13_tiling, C13_tiling_any_rounding,
C13_share, C13_share_any_rounding, C13_volume, C13_windows_rows, C13_groups_cover) over
Model/Window.lean, the code as repaired in /repo (see known_findings.json (entries of C13)).

Tie to the code on every run:
  * whole survey tables (several sites, several components per site, repeated dates, surveys on the
    first/last day, zero and equal rates) through the real gen_estimated_emissions_report /
    gen_estimated_comp_emissions_report, compared window by window with drv_window for duration
    factors on the dyadic grid k/1024 (float arithmetic is exact there), structured-exhaustive small
    core + random;
  * the float confrontation of DESIGN.md 5.13: the real calculate_start_date / calculate_end_date
    for f = k/1000 (k = 0..1000) x gap 0..2000 x both rate orderings and for random doubles: the
    two offsets of every interval must add up to the gap and lie in [0, gap] (the hypothesis of
    C13_tiling_any_rounding) and the larger measurement's share must be floor(g f) or ceil(g f)
    with f the exact value of the double (reference: the Lean model fed with the dyadic rational);
    for f = k/1024 the helpers must equal the model's exact offsets bit for bit;
  * a direct oracle (tiling, share, volume, coverage) on the implementation's windows of every
    table, also for arbitrary doubles; the tiling verdict is cross-checked with the model's own
    `Tiles` predicate;
  * the whole path ProgramOutputManager.summarize_program_outputs -> *_estimated_emissions.csv;
  * WHOLE RUNS of the real simulator (harness/wholerun.py, both duration methods, dyadic and
    non-dyadic factors): tiling / volume (share in component mode) per group of every
    <program>_<sim>_estimated_emissions.csv, the dates-in-period hypothesis measured on the real
    survey stream, and the days covered against the simulated days (known finding F7c: the period
    is [start, end), the last simulated day is in no window).
"""
from __future__ import annotations

import math
from fractions import Fraction

import numpy as np

from harness import core
from harness.adapters import window as W

MANIFEST_ENTRY = {
    "text": "Lean theorem C13 (with C13_tiling, C13_share, C13_volume, C13_groups_cover, C13_complementary, C13_split_sum, C13_windows_rows) proves for the model of the repaired window code that, in measurement mode per site and in component mode per (site, equipment, component), the estimation windows partition [start date, end date) for every duration factor p/q in [0,1], every table of survey reports, every spacing (equal dates, surveys on the first and last day) and every ordering of neighbouring rates, that the larger bounding measurement receives floor(g f) / ceil(g f) days of each interval and that the volume is rate x days x 864/10; C13_tiling_any_rounding proves the partition for ANY integer in [0, gap] the code may obtain for floor(gap x factor), i.e. independently of floating point. The model is tied to the real gen_estimated_emissions_report / gen_estimated_comp_emissions_report / determine_start_and_end_dates / calculate_start_date / calculate_end_date / calculate_volume_emitted by differential correspondence on generated survey tables (dyadic factors, bit-exact), the float implementation is confronted on f = k/1000 x gap 0..2000 x both orderings and on random doubles with the tiling identity, the admissibility hypothesis and the share clause, and a direct oracle evaluates tiling, share (exactly floor/ceil on dyadic factors), volume and coverage on every table produced by the real code, including the CSV written by ProgramOutputManager and the <program>_<sim>_estimated_emissions.csv files of whole runs of the real simulator (both duration methods, dyadic and non-dyadic factors), where the dates-in-period hypothesis is measured on the real survey stream. C13_share_bounded_rounding extends the share clause to every rounding bounded by floor(g f)/ceil(g f) (what IEEE doubles deliver; checked on the grid). The period is [start date, end date): C13_days_covered / C13_inclusive_counterexample and known finding F7c record that the last simulated day is in no window.",
    "design_ref": "DESIGN.md 5.13",
    "note": "trusted: Lean kernel + propext/Classical.choice/Quot.sound; the hand-written model (tied by sampled/structured-exhaustive correspondence, not proof); harness adapters and oracle; exact-rational theorems reach the float code through C13_tiling_any_rounding whose hypothesis (0 <= floor(g*a) <= g, start offset taken by subtraction) is checked on the grid and on random doubles, not proved over IEEE doubles; pandas sort/groupby/shift/diff and numpy floor as installed; survey reports outside [start, end], NaN rates and factors outside [0,1] are outside the statement; of the repaired-emissions-to-remove report only that it is produced with defined, non-negative volumes is checked (its amounts belong to C14)",
    "technique": "Lean 4 proof over an executable model (exact rationals; tiling for every rounding) + differential correspondence with the real pandas code + exhaustive float grid confrontation + direct oracle",
}

MODULE = "LdarModel.Props.C13"
FILE = "LdarModel/Props/C13.lean"
SCALE = 8
K_TRUE = 86.4
G_MAX = 2000
MODE_NAME = {0: "site", 1: "component"}


class _Keys(set):
    """distinct non-trivial case keys: explicit keys (tables) + a counted number of grid triples
    (f, gap, ordering) which are distinct by construction and too many to store one by one"""

    def __init__(self):
        super().__init__()
        self.extra = 0

    def __len__(self):
        return super().__len__() + self.extra


# ----------------------------------------------------------------------------------------------
# driver helpers
# ----------------------------------------------------------------------------------------------
def frac_of(f):
    p, q = float(f).as_integer_ratio()
    return p, q


def table_line(case):
    (mode, f, S, E, scale, recs) = case
    p, q = frac_of(f)
    body = ",".join("[%d,%d,%d,%d,%d]" % r for r in recs)
    return f"table {mode} {p} {q} {S} {E} [{body}]"


def parse_table(reply):
    out = {}
    if reply == "none":
        return out
    for grp in reply.split("|"):
        k, ws = grp.split(":")
        key = tuple(int(x) for x in k.split(","))
        rows = []
        inner = ws[1:-1]
        if inner:
            for w in inner[1:-1].split("],["):
                rows.append(tuple(int(x) for x in w.split(",")))
        out[key] = rows
    return out


def canon_impl(impl):
    return {k: [(w["start"], w["stop"], w.get("date"), w["rate_num"]) for w in ws] for k, ws in impl.items()}


# ----------------------------------------------------------------------------------------------
# the direct oracle on the implementation's windows
# ----------------------------------------------------------------------------------------------
def tiling_kinds(S, E, ws):
    kinds = []
    if not ws:
        return ["no-window"]
    if ws[0]["start"] != S:
        kinds.append("first-window-start")
    if ws[-1]["stop"] != E:
        kinds.append("last-window-end")
    for a, b in zip(ws, ws[1:]):
        if a["stop"] > b["start"]:
            kinds.append("overlap")
        elif a["stop"] < b["start"]:
            kinds.append("gap")
    if any(w["start"] > w["stop"] for w in ws):
        kinds.append("negative-window")
    return sorted(set(kinds))


def expected_keys(case):
    (mode, f, S, E, scale, recs) = case
    if mode == 0:
        return {(r[0], -1, -1) for r in recs}
    return {(r[0], r[1], r[2]) for r in recs if r[2] >= 0}


def expected_rows(case):
    """the survey rows every group must extrapolate, computed from the table alone (not from anything
    the code produced): the group's reports in table order, in component mode a zero row for every
    date on which the site has a component report but this component has none, a zero row on the
    start date and one on the end date, in date order (equal dates keep this order)"""
    (mode, f, S, E, scale, recs) = case
    rel = recs if mode == 0 else [r for r in recs if r[2] >= 0]
    out = {}
    for r in rel:
        key = (r[0], -1, -1) if mode == 0 else (r[0], r[1], r[2])
        out.setdefault(key, []).append((r[3], r[4]))
    for key, own in out.items():
        rows = list(own)
        if mode == 1:
            have = {d for d, _ in own}
            site_dates = []
            for r in rel:
                if r[0] == key[0] and r[3] not in have and r[3] not in site_dates:
                    site_dates.append(r[3])
            rows += [(d, 0) for d in site_dates]
        rows += [(S, 0), (E, 0)]
        out[key] = sorted(rows, key=lambda x: x[0])  # stable
    return out


def attach_dates(case, impl, exp_rows=None):
    """the report of measurement mode does not say which survey a window belongs to; when the adapter
    could not read it from the code either, the table itself says it (same number of rows, same rates)"""
    exp_rows = expected_rows(case) if exp_rows is None else exp_rows
    for key, ws in impl.items():
        if key in exp_rows and len(ws) == len(exp_rows[key]) and any("date" not in w for w in ws) \
                and [w["rate_num"] for w in ws] == [r for _, r in exp_rows[key]]:
            for w, (d, _) in zip(ws, exp_rows[key]):
                w.setdefault("date", d)


def oracle_table(ctx, case, impl, origin="table", exact=False, check_cover=True):
    """evaluate the clauses of C13 on the windows the real code produced; returns #violations.
    `exact`: the factor is dyadic (double arithmetic exact), so the share must be exactly floor(g f)
    when the earlier measurement is larger or equal and exactly ceil(g f) when the later one is larger"""
    (mode, f, S, E, scale, recs) = case
    mname = MODE_NAME[mode]
    inp = {"case": [mode, f, S, E, scale, [list(r) for r in recs]], "origin": origin,
           "dates": {"S": str(W.day2date(S)), "E": str(W.day2date(E))}}
    n0 = len(ctx.violations)
    phi = Fraction(float(f))
    missing = (expected_keys(case) - set(impl)) if check_cover else set()
    if missing:
        ctx.violate(f"C13:coverage:{mname}:missing-group",
                    "a surveyed site/component has no estimation windows",
                    dict(inp, missing=sorted(missing)))
    unexpected = (set(impl) - expected_keys(case)) if check_cover else set()
    if unexpected:
        ctx.violate(f"C13:coverage:{mname}:unexpected-group",
                    "estimation windows for a site/component without a (component level) report",
                    dict(inp, unexpected=sorted(unexpected)))
    exp_rows = expected_rows(case) if check_cover else {}
    if check_cover:
        attach_dates(case, impl, exp_rows)
    for key, ws in sorted(impl.items()):
        if key in exp_rows:
            got = [(w.get("date", d), w["rate_num"]) for w, (d, _) in zip(ws, exp_rows[key])] \
                if len(ws) == len(exp_rows[key]) else None
            if got != exp_rows[key]:
                ctx.violate(f"C13:rows:{mname}:windows-not-attached-to-the-survey-rows",
                            "the windows of a group do not carry, in date order, the group's own reports "
                            "(plus zero rows on the start date, the end date and, in component mode, the "
                            "site's other survey dates)",
                            dict(inp, group=list(key), expected=[list(x) for x in exp_rows[key]][:30],
                                 got=[[w.get("date"), w["rate_num"]] for w in ws][:30]))
        for kind in tiling_kinds(S, E, ws):
            ctx.violate(f"C13:tiling:{mname}:{kind}",
                        f"{mname} mode: the windows of a group do not partition [start date, end date): {kind}",
                        dict(inp, group=list(key), windows=[[w["start"], w["stop"]] for w in ws]))
        if all("date" in w for w in ws):
            for a, b in zip(ws, ws[1:]):
                g = b["date"] - a["date"]
                if g < 0:
                    ctx.violate(f"C13:rows:{mname}:unsorted", "rows of a group are not in date order",
                                dict(inp, group=list(key)))
                    continue
                first_part = a["stop"] - a["date"]
                second_part = b["date"] - b["start"]
                larger = first_part if b["rate_num"] <= a["rate_num"] else second_part
                lo, hi = math.floor(g * phi), math.ceil(g * phi)
                if not (0 <= first_part <= g and 0 <= second_part <= g):
                    ctx.violate(f"C13:share:{mname}:outside-interval",
                                "a window reaches beyond the neighbouring survey date",
                                dict(inp, group=list(key), interval=[a["date"], b["date"]]))
                elif exact and larger != (lo if b["rate_num"] <= a["rate_num"] else hi):
                    ctx.violate(f"C13:share:{mname}:floor-ceil-assignment",
                                "exact factor: the larger measurement must receive floor(gap x f) days when it "
                                "is the earlier (or equal) one and ceil(gap x f) days when it is the later one",
                                dict(inp, group=list(key), interval=[a["date"], b["date"]], got=larger,
                                     expected=lo if b["rate_num"] <= a["rate_num"] else hi))
                elif not (lo <= larger <= hi):
                    ctx.violate(f"C13:share:{mname}:larger-measurement-days",
                                "the larger bounding measurement does not receive floor/ceil(gap x factor) days",
                                dict(inp, group=list(key), interval=[a["date"], b["date"]], got=larger,
                                     expected=[lo, hi]))
        if ws and all("prev" in w for w in ws):
            bad = None
            if ws[0]["prev"] or ws[-1]["next"]:
                bad = "first row uses the previous / last row the next condition"
            for a, b in zip(ws, ws[1:]):
                if b["prev"] == a["next"]:
                    bad = "previous condition of a row is not the negation of the next condition of the row before"
                elif a["next"] != (a["rate_num"] < b["rate_num"]):
                    bad = "next condition is not the exact comparison rate < next rate"
                if bad:
                    break
            if bad:
                ctx.violate(f"C13:conditions:{mname}:not-complementary-exact-comparisons",
                            "the two condition columns must be the exact comparisons of neighbouring measured "
                            "rates and complementary on every pair: " + bad,
                            dict(inp, group=list(key), rates=[w["rate_num"] / scale for w in ws][:12],
                                 prev=[w["prev"] for w in ws][:12], next=[w["next"] for w in ws][:12]))
        for w in ws:
            rn = w["rate_num"]
            exp = (rn / scale) * (w["stop"] - w["start"]) * K_TRUE
            if not (w["vol"] == exp):
                ctx.violate(f"C13:volume:{mname}", "estimated volume != measured rate x window days x 86.4",
                            dict(inp, group=list(key), window=[w["start"], w["stop"]], rate=rn / scale,
                                 got=w["vol"], expected=exp))
    return len(ctx.violations) - n0


def group_signature(case, ws):
    """abstraction of one group for the distinct / non-trivial count: factor, and per interval the
    gap and the ordering of the two rates; non-trivial when some gap x f is not a whole number"""
    (mode, f, S, E, scale, recs) = case
    phi = Fraction(float(f))
    sig = []
    nontrivial = False
    for a, b in zip(ws, ws[1:]):
        if "date" not in a:
            return None, False
        g = b["date"] - a["date"]
        sig.append((g, (a["rate_num"] > b["rate_num"]) - (a["rate_num"] < b["rate_num"])))
        if g > 0 and (g * phi).denominator != 1:
            nontrivial = True
    return (mode, float(f), tuple(sig)), nontrivial


# ----------------------------------------------------------------------------------------------
# generators
# ----------------------------------------------------------------------------------------------
RATE_POOL = [0, 0, 0, 1, 2, 3, 5, 8, 8, 13, 16, 40]


def exhaustive_small_tables(fs):
    """structured-exhaustive core: one or two surveys of a site on every pair of days of a period of
    1..5 days, every ordering of the two rates (0,1,2)^2; one site per scenario, many per table"""
    for L in range(1, 6):
        S = 7300
        E = S + L
        recs = []
        site = 0
        for d1 in range(0, L + 1):
            for r1 in (0, 1, 2):
                site += 1
                recs.append((site, -1, -1, S + d1, r1))
            for d2 in range(d1, L + 1):
                for r1 in (0, 1, 2):
                    for r2 in (0, 1, 2):
                        site += 1
                        recs.append((site, -1, -1, S + d1, r1))
                        recs.append((site, -1, -1, S + d2, r2))
        for f in fs:
            yield (0, f, S, E, SCALE, recs)


def _dn(y, m, d):
    import datetime as _dt
    return (_dt.date(y, m, d) - W.EPOCH).days


# calendar boundaries put into periods and survey dates on purpose: Dec 31 / Jan 1 (leap and
# non-leap years, day-of-year 365 / 366), Feb 28 / 29 / Mar 1, month ends
BOUNDARY_DAYS = sorted({_dn(y, m, d) for y in (2019, 2020, 2021, 2023, 2024)
                        for (m, d) in ((1, 1), (1, 2), (2, 28), (3, 1), (6, 30), (7, 1), (12, 30), (12, 31))}
                       | {_dn(2020, 2, 29), _dn(2024, 2, 29)})


def boundary_period(rng):
    """(S, E): 1- and 2-day periods, calendar years, periods straddling New Year / Feb 29, periods that
    neither start on Jan 1 nor end on Dec 31, whole leap years"""
    kind = rng.randrange(8)
    y = rng.choice([2019, 2020, 2021, 2023, 2024])
    if kind == 0:
        S = rng.choice(BOUNDARY_DAYS)
        return S, S                      # one simulated day
    if kind == 1:
        S = rng.choice(BOUNDARY_DAYS)
        return S, S + 1                  # two simulated days (Dec 31 -> Jan 1, Feb 28 -> Feb 29/Mar 1 ...)
    if kind == 2:
        return _dn(y, 1, 1), _dn(y, 12, 31)
    if kind == 3:
        return _dn(y, 12, rng.randint(20, 31)), _dn(y + 1, 1, rng.randint(1, 15))
    if kind == 4:
        return _dn(y, 2, rng.randint(20, 28)), _dn(y, 3, rng.randint(1, 10))
    if kind == 5:
        return _dn(y, rng.randint(2, 11), rng.randint(2, 27)), _dn(y + 1, rng.randint(2, 11), rng.randint(2, 27))
    if kind == 6:
        return _dn(y, 7, 1), _dn(y + 1, 6, 30)
    return _dn(y, 1, 1), _dn(y + 2, 12, 31)


def random_table(rng, f, big=False, boundary=False):
    mode = rng.choice([0, 1, 1])
    S = rng.randint(6000, 9000)
    L = rng.choice([0, 1, 2, 3, 5, 10, 30, 31, 365, rng.randint(1, 60), rng.randint(1, 800)])
    if big:
        L = rng.randint(100, 4000)
    E = S + L
    if boundary:
        S, E = boundary_period(rng)
    special = [d for d in BOUNDARY_DAYS if S <= d <= E] if boundary else []
    recs = []
    nsites = rng.randint(1, 5 if not big else 12)
    for site in rng.sample(range(1, 40), nsites):
        ndates = rng.choice([0, 1, 1, 2, 2, 3, 4, 6] if not big else [1, 2, 4, 8, 12, 20])
        days = []
        for _ in range(ndates):
            r = rng.random()
            if r < 0.12:
                days.append(S)
            elif r < 0.24:
                days.append(E)
            elif r < 0.4 and days:
                days.append(rng.choice(days))  # repeated date (two methods on one day)
            elif r < 0.75 and special:
                days.append(rng.choice(special))
            else:
                days.append(rng.randint(S, E))
        comps = [(e, c) for e in range(1, rng.randint(1, 3) + 1) for c in range(1, rng.randint(1, 3) + 1)]
        for d in days:
            if mode == 0 or rng.random() < 0.15:
                recs.append((site, -1, -1, d, rng.choice(RATE_POOL)))
            if mode == 1:
                for (e, c) in comps:
                    if rng.random() < 0.5:
                        recs.append((site, e, c, d, rng.choice(RATE_POOL)))
        if mode == 0 and rng.random() < 0.3 and days:
            # measurement mode also sees component level rows (grouped by site all the same)
            recs.append((site, 1, 1, rng.choice(days), rng.choice(RATE_POOL)))
    rng.shuffle(recs)
    return (mode, f, S, E, SCALE, recs)


def near_tie_core(fs, small=False):
    """structured core: every ordered pair of one near-tie family as the two measurements of a site (one
    site per pair), 40 and 7 days apart"""
    for base in (NEAR_BASES[:1] if small else NEAR_BASES[:2]):
        fam = [fine(v) for v in near_family(base)]
        for gap in ((40,) if small else (40, 7)):
            S = 7300
            recs = []
            site = 0
            for ra in fam:
                for rb in fam:
                    site += 1
                    recs.append((site, -1, -1, S + 3, ra))
                    recs.append((site, -1, -1, S + 3 + gap, rb))
            for f in fs:
                yield (0, f, S, S + 3 + gap + 4, SCALE_FINE, recs)


def near_tie_table(rng, f):
    """random histories whose neighbouring measurements are ties up to rounding (both modes)"""
    mode = rng.choice([0, 1])
    S = rng.randint(6000, 9000)
    E = S + rng.choice([5, 30, 90, 365])
    recs = []
    for site in rng.sample(range(1, 40), rng.randint(1, 4)):
        fam = [fine(v) for v in near_family(rng.choice(NEAR_BASES))] + [0]
        comps = [(-1, -1)] if mode == 0 else [(1, c) for c in range(1, rng.randint(1, 2) + 1)]
        for _ in range(rng.randint(2, 6)):
            d = rng.randint(S, E)
            for (e, c) in comps:
                if rng.random() < 0.8:
                    recs.append((site, e, c, d, rng.choice(fam)))
    rng.shuffle(recs)
    return (mode, f, S, E, SCALE_FINE, recs)


def dyadic_factor(rng):
    return rng.choice([0.0, 1.0, 0.5, 0.25, 0.75, rng.randint(0, 8) / 8, rng.randint(0, 1024) / 1024,
                       rng.randint(0, 1024) / 1024])


NASTY = [0.7, 0.8, 0.1, 0.2, 0.3, 0.6, 0.9, 1 / 3, 2 / 3, 0.35, 0.55, 0.07, 0.29, 0.57, 0.58,
         5e-324, 2.0 ** -53, 1 - 2.0 ** -53, 0.5 - 2.0 ** -54, 0.5 + 2.0 ** -53, 0.1 + 0.2, 0.999, 0.001]


def float_factor(rng):
    r = rng.random()
    if r < 0.3:
        return rng.choice(NASTY)
    if r < 0.6:
        return rng.randint(0, 1000) / 1000
    if r < 0.7:
        return rng.randint(0, 100) / 100
    return rng.random()


# ----------------------------------------------------------------------------------------------
# stages
# ----------------------------------------------------------------------------------------------
def check_constant(ctx):
    k = W.repo_constant()
    ctx.extra["repo_conversion_constant"] = repr(k)
    if not (isinstance(k, float) and k == float(Fraction(864, 10))):
        # the volume oracle (against 86.4) will produce the concrete failing window
        ctx.note(f"repo conversion constant is {k!r}, the model uses 864/10")


def run_tables(ctx, cases, exact, origin, style_rng):
    """implementation + oracle on every table; for `exact` tables additionally the model diff"""
    drv = core.LeanDriver("drv_window")
    impls = []
    for ci0, case in enumerate(cases):
        style = pick_style(style_rng, case)
        try:
            impl = W.impl_report(case, style, audit=(ci0 % 7 == 0))
            attach_dates(case, impl)
            ctx.count(f"tables_with_{style}_names")
        except Exception as e:  # a crash of the real code on a valid table
            ctx.violate(f"C13:crash:{MODE_NAME[case[0]]}:{type(e).__name__}",
                        f"the report function raised {type(e).__name__}: {e}",
                        {"case": [case[0], case[1], case[2], case[3], case[4], [list(r) for r in case[5]]],
                         "origin": origin, "style": style})
            impl = None
        impls.append(impl)
    lines = []
    index = []
    for ci, (case, impl) in enumerate(zip(cases, impls)):
        if impl is None:
            continue
        lines.append(table_line(case))
        index.append(("table", ci, None))
        for key, ws in sorted(impl.items()):
            lines.append("tiles %d %d [%s]" % (case[2], case[3], ",".join("[%d,%d]" % (w["start"], w["stop"]) for w in ws)))
            index.append(("tiles", ci, key))
    replies = drv.run(lines)
    K = W.repo_constant()
    for (kind, ci, key), rep in zip(index, replies):
        case, impl = cases[ci], impls[ci]
        if kind == "tiles":
            py_ok = not tiling_kinds(case[2], case[3], impl[key])
            if rep not in ("0", "1") or (rep == "1") != py_ok:
                ctx.disagree("tiles-predicate", {"case": table_line(case), "group": list(key)}, rep, py_ok)
            continue
        model = parse_table(rep) if rep != "bad-op" else None
        if model is None:
            ctx.disagree("window-table", table_line(case), rep, "impl ok")
            continue
        mconds = {k: [(bool(w[5]), bool(w[6])) for w in ws] for k, ws in model.items()}
        iconds = {k: [(w["prev"], w["next"]) for w in ws] for k, ws in impl.items() if ws and all("prev" in w for w in ws)}
        for k in iconds:
            if k in mconds and mconds[k] != iconds[k]:
                ctx.disagree("window-conditions", table_line(case), {str(k): mconds[k][:12]}, {str(k): iconds[k][:12]})
                break
        if exact:
            mc = {k: [w[:4] for w in ws] for k, ws in model.items()}
            ic = canon_impl(impl)
            if mc != ic:
                bad = sorted(k for k in set(mc) | set(ic) if mc.get(k) != ic.get(k))[:3]
                ctx.disagree("window-table", table_line(case),
                             {str(k): mc.get(k) for k in bad}, {str(k): ic.get(k) for k in bad})
            else:
                for k, ws in model.items():
                    for mw, iw in zip(ws, impl[k]):
                        # model volume = volNum / (10*scale); volNum = rate_num*days*864
                        rd = mw[4] // 864
                        if rd * 864 != mw[4] or not (iw["vol"] == (rd / case[4]) * K):
                            ctx.disagree("window-volume", table_line(case), mw, iw)
        else:
            mc = {k: [w[:4] for w in ws] for k, ws in model.items()}
            if mc != canon_impl(impl):
                ctx.count("float_tables_differing_from_exact_rational_model")
    for case, impl in zip(cases, impls):
        if impl is None:
            continue
        ctx.evaluations += max(1, len(impl))
        oracle_table(ctx, case, impl, origin, exact=exact)
        ctx.count(f"tables_{origin}")
        if 0.0 <= case[1] <= 1.0 and case[2] <= case[3] and all(case[2] <= r[3] <= case[3] for r in case[5]):
            ctx.count("tables_satisfying_theorem_hypotheses")
        ctx.count(f"groups_{MODE_NAME[case[0]]}", len(impl))
        if not impl:
            ctx.count("tables_without_report")
        for key, ws in impl.items():
            sig, nt = group_signature(case, ws)
            if nt:
                ctx.nontrivial.add(sig)
            if len(ws) > 2:
                ctx.count("groups_with_surveys")
            if any(a.get("date") is not None and a.get("date") == b.get("date") for a, b in zip(ws, ws[1:])):
                ctx.count("groups_with_equal_dates")
    return impls


# measured rates as exact multiples of 2^-56: every double in [2^-4, 2^7) is one, so two rates that
# differ by one ulp, by 1e-12 ... are exact inputs of the model too
SCALE_FINE = 2 ** 56
NEAR_DELTAS = [0.0, 1e-12, 1e-9, 1e-8, 0.99e-8, 1.01e-8, 3e-8, 1e-6]


def fine(r):
    n = Fraction(float(r)) * SCALE_FINE
    assert n.denominator == 1, r
    return int(n)


def near_family(b):
    """b itself, its two neighbouring doubles, and b +- small differences (below, at and above any tolerance
    such as numpy.isclose's 1e-8)"""
    vals = {float(b), math.nextafter(b, math.inf), math.nextafter(b, -math.inf)}
    for d in NEAR_DELTAS[1:]:
        vals.add(b + d)
        vals.add(b - d)
    return sorted(vals)


NEAR_BASES = [0.6, 0.1 + 0.2, 1.7, 0.125 + 1e-3, 10.0]
# (earlier rate, later rate): clear orderings, exact ties, near ties of both signs
RATE_PAIRS = [(1.0, 2.0), (2.0, 1.0), (1.0, 1.0), (0.0, 0.0), (0.0, 0.6), (0.6, 0.0)] + \
    [(a, b) for base in (0.6, 0.1 + 0.2) for a in near_family(base) for b in near_family(base)
     if a == base or b == base]


def failing_pair_table(f, g, pair):
    """a concrete survey table for one interval: gap g between two measurements with the rates `pair`"""
    S = 7300
    return (0, float(f), S, S + 3 + g + 4, SCALE_FINE,
            [(1, -1, -1, S + 3, fine(pair[0])), (1, -1, -1, S + 3 + g, fine(pair[1]))])


_PAIR_CONDS = {}


def pair_conds(ctx):
    """the real condition functions on every pair of RATE_PAIRS (once per run); pairs on which they are
    not the exact comparisons / not complementary become concrete tables for the oracle right away"""
    if "c" not in _PAIR_CONDS:
        conds, edge = W.pair_conditions(RATE_PAIRS)
        _PAIR_CONDS["c"] = conds
        bad = []
        for (ra, rb), (nx, pv), (p0, n1) in zip(RATE_PAIRS, conds, edge):
            ctx.evaluations += 1
            if nx != (ra < rb) or pv != (rb <= ra) or pv == nx or p0 or n1:
                bad.append((ra, rb))
        ctx.count("rate_pairs_through_the_real_condition_functions", len(RATE_PAIRS))
        ctx.count("rate_pairs_near_ties", sum(1 for a, b in RATE_PAIRS if a != b and abs(a - b) <= 1e-6))
        for (ra, rb) in bad[:6]:
            for f, g in ((1.0, 40), (0.0, 40), (0.25, 7)):
                case = failing_pair_table(f, g, (ra, rb))
                impl = W.impl_report(case)
                attach_dates(case, impl)
                if oracle_table(ctx, case, impl, origin="rate-pair-conditions", exact=True) == 0:
                    ctx.broke("rate pair conditions", f"conditions of ({ra!r}, {rb!r}) are not the exact comparisons but "
                                                      f"the table oracle accepts {case}")
    return _PAIR_CONDS["c"]


def confront(ctx, fs, label, share_ref=True):
    """float confrontation on the real helpers for the factors `fs` (array-factor calls, every gap
    0..G_MAX) x every pair of measured rates in RATE_PAIRS, whose two conditions come from the REAL
    calculate_next_condition / calculate_prev_condition.  Returns list of failing (f, gap, pair, kind)."""
    drv = core.LeanDriver("drv_window")
    conds = pair_conds(ctx)
    combos = sorted(set(conds))                      # distinct (next of earlier, prev of later)
    reps = {c: [p for p, cc in zip(RATE_PAIRS, conds) if cc == c] for c in combos}
    failing = []
    chunk = 50
    n_nontrivial = 0
    n_float_vs_exact = 0
    for i in range(0, len(fs), chunk):
        part = fs[i:i + chunk]
        gaps, e, st = W.helper_offsets_pairs(part, combos, 0, G_MAX)
        ng = len(gaps)
        ctx.evaluations += len(combos) * ng * len(part)   # distinct computations; every rate pair maps to one
        g2 = gaps[None, :]
        fl = ce = None
        if share_ref:
            lines = ["share %d %d 0 %d" % (frac_of(f) + (G_MAX,)) for f in part]
            ref = np.array([np.array(r.split(), dtype=np.int64) for r in drv.run(lines)])
            fl, ce = ref[:, 0::2], ref[:, 1::2]
            n_nontrivial += len(combos) * int((fl != ce).sum())
        for k, c in enumerate(combos):
            ek, sk = e[:, k, :], st[:, k, :]
            checks = [("tiling-identity", ek + sk != g2),
                      ("offset-outside-interval", (ek < 0) | (ek > g2) | (sk < 0) | (sk > g2))]
            pair_for = {"tiling-identity": reps[c][0], "offset-outside-interval": reps[c][0]}
            if share_ref:
                earlier_larger = [p for p in reps[c] if p[0] >= p[1]]
                later_larger = [p for p in reps[c] if p[0] < p[1]]
                if earlier_larger:      # the earlier measurement (larger or equal) receives its end offset
                    checks.append(("share-earlier", (ek < fl) | (ek > ce)))
                    pair_for["share-earlier"] = earlier_larger[0]
                    n_float_vs_exact += int((ek != fl).sum())
                if later_larger:        # the later, larger measurement receives its start offset
                    checks.append(("share-later", (sk < fl) | (sk > ce)))
                    pair_for["share-later"] = later_larger[0]
                    n_float_vs_exact += int((sk != ce).sum())
            for kind, bad in checks:
                if bad.any():
                    ctx.count(f"{label}_failing_triples", int(bad.sum()))
                    for (fi, gi) in np.argwhere(bad)[:40]:  # a sample; the total is counted above
                        failing.append((float(part[fi]), int(gaps[gi]), pair_for[kind], kind.split("-")[0] if kind.startswith("share") else kind))
    ctx.nontrivial.extra += n_nontrivial
    ctx.count(f"{label}_factors", len(fs))
    ctx.count(f"{label}_triples_f_gap_ratepair", len(RATE_PAIRS) * (G_MAX + 1) * len(fs))
    ctx.count(f"{label}_distinct_condition_combinations", len(combos))
    ctx.count(f"{label}_float_offset_differs_from_exact_rational", n_float_vs_exact)
    return failing


def exact_grid(ctx, fs):
    """dyadic factors k/1024: double arithmetic is exact, so the real helpers must agree with the
    model's exact offsets for every gap and both conditions, bit for bit"""
    drv = core.LeanDriver("drv_window")
    for i in range(0, len(fs), 50):
        part = fs[i:i + 50]
        gaps, eT, eF, sT, sF = W.helper_offsets_many(part, 0, G_MAX)
        lines = ["offs %d %d 0 %d" % (frac_of(f) + (G_MAX,)) for f in part]
        ref = np.array([np.array(r.split(), dtype=np.int64) for r in drv.run(lines)])
        impl = [eT, eF, sT, sF]
        for j in range(4):
            bad = ref[:, j::8] != impl[j]
            if bad.any():
                fi, gi = np.argwhere(bad)[0]
                ctx.disagree("offsets-dyadic-grid", {"f": float(part[fi]), "gap": int(gaps[gi]),
                                                      "which": ["endT", "endF", "startT", "startF"][j]},
                             int(ref[:, j::8][fi, gi]), int(impl[j][fi, gi]))
            # the model's own two forms (repaired / before the repairs) agree in exact arithmetic
            if (ref[:, j::8] != ref[:, j + 4::8]).any():
                ctx.broke("model: repaired offsets = original offsets in exact arithmetic", "driver output differs")
        ctx.evaluations += 2 * len(gaps) * len(part)
    ctx.count("dyadic_grid_factors", len(fs))


def report_failing(ctx, failing, label):
    """turn failing (f, gap, ordering) triples of the helpers into concrete survey tables judged by
    the table oracle"""
    if not failing:
        return
    ctx.extra.setdefault("failing_triples_sample", [])
    ctx.extra["failing_triples_sample"] += [list(x) for x in failing[:10]]
    seen = {}
    for (f, g, c, kind) in failing:
        c = tuple(c)
        seen.setdefault((kind, c), [])
        if len(seen[(kind, c)]) < 3:
            seen[(kind, c)].append((f, g))
    for (kind, c), lst in seen.items():
        for (f, g) in lst:
            case = failing_pair_table(f, g, c)
            impl = W.impl_report(case)
            attach_dates(case, impl)
            n = oracle_table(ctx, case, impl, origin=f"{label}:{kind}")
            if n == 0:
                ctx.broke(f"float confrontation {kind}",
                          f"helpers fail {kind} for f={f!r} gap={g} rates={c} but the table oracle "
                          f"accepts the windows of {case}")


def scalar_crosscheck(ctx, fs):
    """the same helpers called the way the code calls them (scalar factor), compared with the
    array-factor call used for the bulk of the grid"""
    for i in range(0, len(fs), 50):
        part = fs[i:i + 50]
        gaps, eT, eF, sT, sF = W.helper_offsets_many(part, 0, G_MAX)
        for j, f in enumerate(part):
            g1, a, b, c, d = W.helper_offsets(f, 0, G_MAX)
            if not ((a == eT[j]).all() and (b == eF[j]).all() and (c == sT[j]).all() and (d == sF[j]).all()):
                ctx.disagree("scalar-vs-array-factor", {"f": f}, "array call", "scalar call")
            ctx.count("scalar_factor_calls_crosschecked")


# dyadic-factor corpus (model diff + sharpened share oracle)
CORPUS_EXACT = [
    # three reports of one site on one date with distinct rates, both table orders (sort stability:
    # the windows follow the order of the reports in the table), in both modes
    (0, 0.375, 7671, 7701, SCALE, [(1, -1, -1, 7685, 16), (1, -1, -1, 7685, 3), (1, -1, -1, 7685, 8), (1, -1, -1, 7690, 5)]),
    (0, 0.375, 7671, 7701, SCALE, [(1, -1, -1, 7685, 3), (1, -1, -1, 7685, 8), (1, -1, -1, 7685, 16), (1, -1, -1, 7680, 5)]),
    (1, 0.625, 7671, 7701, SCALE, [(1, 1, 1, 7685, 16), (1, 1, 1, 7685, 3), (1, 1, 1, 7685, 8), (1, 1, 2, 7690, 5)]),
    (1, 0.625, 7671, 7701, SCALE, [(1, 1, 1, 7685, 8), (1, 1, 2, 7690, 5), (1, 1, 1, 7685, 3), (1, 1, 1, 7685, 16)]),
    # component mode: site 2 has only site-level reports -> no group for it; site 3 has none at all
    (1, 0.5, 7671, 7701, SCALE, [(1, 1, 1, 7681, 8), (2, -1, -1, 7683, 16), (2, -1, -1, 7690, 3)]),
    # component mode with site-level reports only -> no report at all
    (1, 0.5, 7671, 7701, SCALE, [(2, -1, -1, 7683, 16), (2, -1, -1, 7690, 3)]),
    (1, 0.5, 7671, 7701, SCALE, [(1, 1, 1, 7681, 8), (1, 1, 2, 7691, 16)]),
]

CORPUS = [
    # the two witnesses of F7 (DESIGN.md 5.13 / section 6), now repaired
    (0, 0.7, 7671, 7701, SCALE, [(1, -1, -1, 7681, 8), (1, -1, -1, 7691, 16)]),
    (1, 0.5, 7671, 7701, SCALE, [(1, 1, 1, 7681, 8), (1, 1, 2, 7691, 16)]),
    (0, 0.8, 7671, 7701, SCALE, [(1, -1, -1, 7681, 8), (1, -1, -1, 7686, 16)]),
    (1, 0.7, 7671, 7701, SCALE, [(2, 1, 1, 7671, 8), (2, 1, 2, 7701, 16), (2, 2, 1, 7681, 3), (3, 1, 1, 7691, 5),
                                 (3, 1, 1, 7691, 2), (4, -1, -1, 7680, 9)]),
]


def repeated_site_in_tf(ctx):
    """audit c.3: ProgramOutputManager merges the windows with measured_tf_df on the site id before
    writing the CSV.  With the frame the simulator builds (one row per Site object) the merge is
    1:1; a repeated site id (only possible with a sites file that repeats an id — invalid input,
    outside the statement) duplicates that site's windows in the file.  Both are exercised; the
    second is measured and noted, not judged."""
    case = (0, 0.5, 7671, 7701, SCALE, [(1, -1, -1, 7681, 8), (2, -1, -1, 7691, 16)])
    ok = W.manager_report(case)
    oracle_table(ctx, case, ok, origin="manager_csv", exact=True)
    dup = W.manager_report(case, repeat_tf_site=1)
    n_ok = sum(len(v) for v in ok.values())
    n_dup = sum(len(v) for v in dup.values())
    ctx.extra["repeated_site_id_in_measured_tf_df"] = {
        "csv_rows_unique_ids": n_ok, "csv_rows_with_site_1_listed_twice": n_dup,
        "tiling_kinds_site_1": tiling_kinds(case[2], case[3], dup.get((1, -1, -1), [])),
        "reading": "invalid input (site ids are the keys of the infrastructure); the merge then duplicates windows"}
    ctx.count("manager_csv_rows_duplicated_by_repeated_site_id", n_dup - n_ok)
    ctx.traces += 2


# ----------------------------------------------------------------------------------------------
# whole simulations: <program>_<sim>_estimated_emissions.csv of the real simulator
# ----------------------------------------------------------------------------------------------
# the boundary set of the factor (0, 1, small, 1/2, large) first, then non-dyadic ones; an odd number
# of entries so that every factor meets both duration methods over the tiers
WR_FACTORS = [0.0, 1 / 64, 1.0, 0.5, 63 / 64, 0.7, 0.001, 0.185, 1 / 3]
COL_SITE, COL_EQG, COL_COMP = "Site ID", "Equipment", "Component"
COL_START, COL_END, COL_RATE, COL_VOL = "Start Date", "End Date", '"Measured" Rate (g/s)', '"Estimated" Volume Emitted (Kg Methane)'
COL_DATE = "Survey Completion Date"


def long_surveys(cfg, rng):
    """site surveys that cannot be finished on the day they are started (survey time above what is left
    of a crew day after the first site): reports that live across simulated days"""
    for name, m in cfg["methods"].items():
        if m.get("deployment_type") == "mobile" and m.get("measurement_scale") == "component":
            m["survey_time"] = rng.choice([300, 420]) if not m.get("is_follow_up") else 300
            m["max_workday"] = 8
            m["t_bw_sites"] = [30.0]
            m["consider_daylight"] = False
    cfg["_c13_long_surveys"] = True
    return cfg


def wholerun_configs(ctx, n):
    from harness import wholerun as WR
    cfgs = []
    for i in range(n):
        mode = ["measurement-based", "component-based"][i % 2]
        # the factor is written to the program parameter files unchanged and reaches the report code
        # through the real Program object; the oracle compares with THIS configured value
        cfg = WR.make_config(ctx.rng, duration_method=mode, duration_factor=WR_FACTORS[i % len(WR_FACTORS)],
                             n_sims=ctx.pick(1, 2), ndays=ctx.rng.choice([120, 200, 365]))
        if i % 3 != 2:
            long_surveys(cfg, ctx.rng)
        cfgs.append(cfg)
    return cfgs


# "wide" configurations of the shared generator (harness/wholerun.make_config(wide=...)): leaves the base
# generator never varies and boundary values.  Tags that change what feeds the inventory: the factor itself
# (estimate: 0 / 0.001), how long / how often / when surveys happen (workday, freq, months, years, crews,
# coverage), what is tagged and repaired when (delays, repairs) and the number of simulations (sims).
WIDE_TAGS = ["estimate", "workday", "freq", "months", "years", "delays", "crews", "coverage", "repairs", "sims",
             "fractional", "sims-batch"]
WIDE_PLAN_QUICK = [["estimate"], True]
WIDE_PLAN_THOROUGH = [["estimate"], ["estimate", "sims"], ["workday"], ["freq", "months"], ["years", "delays"],
                      ["crews"], ["coverage"], ["repairs", "sims"], ["fractional"], ["sims-batch"], WIDE_TAGS, True]


def wholerun_wide_configs(ctx):
    """no duration_factor / n_sims override here: those leaves are left to the shared generator (base draw
    or wide entry) and the oracle reads them from the resulting configuration"""
    from harness import wholerun as WR
    cfgs = []
    for i, wide in enumerate(WIDE_PLAN_QUICK if ctx.quick else WIDE_PLAN_THOROUGH):
        mode = ["measurement-based", "component-based"][i % 2]
        cfg = WR.make_config(ctx.rng, duration_method=mode, ndays=ctx.rng.choice([120, 200]), wide=wide)
        cfg["_c13_wide"] = "all" if wide is True else list(wide)
        cfgs.append(cfg)
    return cfgs


def near_tie_config(ctx, i):
    """rates whose sums depend on the order of accumulation (0.1 + 0.2 + 0.3 = 0.6 in one flat sum,
    0.6000000000000001 when accumulated component by component), measured without quantification error
    by a site-level screening and a component-level follow-up / survey of the same unrepaired emissions"""
    from harness import wholerun as WR
    cfg = WR.make_config(ctx.rng, duration_method="measurement-based", duration_factor=[1.0, 0.0, 0.3, 0.7][i % 4],
                         n_sims=1, ndays=ctx.pick(120, ctx.rng.choice([120, 200])), n_sites=ctx.rng.randint(4, 6),
                         granular=True)
    cfg["rates"] = [0.1, 0.2, 0.3, 0.1, 0.2, 0.3]
    cfg["rep"] = dict(cfg["rep"], epr=0.03125, duration=365, multi=True)
    cfg["repair_delay"] = [60]                 # leaks stay while the next method measures them
    for name, m in cfg["methods"].items():
        m["qe"] = [0.0, 0.0]
        m["mdl"] = 0.0078125
        m["spatial"] = 1.0
        m["temporal"] = 1.0
        m["months"] = list(range(1, 13))
        fu = m.get("follow_up")
        if fu and m["deployment_type"] == "mobile":
            fu.update({"threshold": 0.0, "proportion": 1.0, "delay": 0, "instant_threshold": None})
    cfg["methods"]["AIR"]["surveys_per_year"] = 12
    cfg["methods"]["OGI"]["surveys_per_year"] = 6
    # one program in which a site-level and a component-level method both report the site's rate
    names = [p["name"] for p in cfg["programs"]]
    if "P_mix" not in names:
        cfg["programs"].append({"name": "P_mix", "methods": ["AIR", "OGI_FU", "OGI"]})
    cfg["_c13_near_tie"] = True
    return cfg


def count_near_ties(ctx, res):
    """neighbouring measurements in the written files that differ by less than 1e-8 without being equal"""
    for prog in res.programs:
        for sim in range(res.n_sims):
            rows = res.estimated(prog, sim) or []
            for a, b in zip(rows, rows[1:]):
                if a[COL_SITE] != b[COL_SITE]:
                    continue
                try:
                    ra, rb = float(a[COL_RATE]), float(b[COL_RATE])
                except ValueError:
                    continue
                if ra != rb and abs(ra - rb) <= 1e-8:
                    ctx.count("wholerun_neighbouring_measurements_equal_up_to_rounding")
                elif ra == rb and ra != 0.0:
                    ctx.count("wholerun_neighbouring_measurements_exactly_equal_nonzero")


def history_runs(ctx, n):
    """the generic "history" shape: the configuration asked for, run in a folder in which an earlier run
    with ONE defining leaf changed has left its generator and output folders; every oracle applies to the
    second run against ITS configuration"""
    import random as _r
    from harness import wholerun as WR
    jobs = []
    seen = set()
    tries = 0
    while len(jobs) < n and tries < 60:
        tries += 1
        mode = ["measurement-based", "component-based"][len(jobs) % 2]
        cfg = WR.make_config(ctx.rng, duration_method=mode, duration_factor=ctx.rng.choice(WR_FACTORS), n_sims=1,
                             ndays=ctx.pick(120, ctx.rng.choice([120, 200])), n_sites=ctx.rng.randint(4, 6))
        prev, what = WR.prev_variant(cfg, _r.Random(ctx.rng.randrange(1 << 30)))
        if what in seen:
            continue
        seen.add(what)
        cfg["_c13_history"] = what
        jobs.append((prev, cfg, what))
    return jobs


def json_short(x):
    import json
    return json.dumps(x)[:300] if x else ""


def _site_key(x):
    x = str(x)
    return x[:-2] if x.endswith(".0") else x


def survey_log(res):
    """(program, simulation) -> site -> sorted days on which a site survey was COMPLETED, observed at
    Method.survey_site by the worker's wrapper (not the reports the program keeps)"""
    log = {}
    multi = 0
    for t in res.trace:
        per = log.setdefault((t["prog"], t["sim"]), {})
        for ev in t["events"]:
            if ev[0] != "survey":
                continue
            if ev[12]:
                multi += 1          # returned with the survey still in progress
            if ev[11]:
                per.setdefault(_site_key(ev[3]), []).append(ev[1])
    for per in log.values():
        for k in per:
            per[k].sort()
    return log, multi


def wholerun_groups(res, prog, sim, comp_mode):
    """-> (dict key -> windows in file order, list of rows without a window) or None"""
    rows = res.estimated(prog, sim)
    if rows is None:
        return None
    out = {}
    windowless = []
    for r in rows:
        key = (_site_key(r[COL_SITE]), r.get(COL_EQG, "") if comp_mode else "", r.get(COL_COMP, "") if comp_mode else "")
        try:
            vol = float(r[COL_VOL]) if r[COL_VOL] != "" else float("nan")
            rate = float(r[COL_RATE]) if r[COL_RATE] != "" else float("nan")
        except ValueError:
            vol = rate = float("nan")
        w = {"start": res.day_index(r[COL_START]), "stop": res.day_index(r[COL_END]), "rate_num": rate, "vol": vol}
        if comp_mode and r.get(COL_DATE):
            w["date"] = res.day_index(r[COL_DATE])
        if w["start"] is None or w["stop"] is None or vol != vol or rate != rate or (comp_mode and w.get("date") is None):
            windowless.append((key, dict(r)))
            out.setdefault(key, [])
            continue
        out.setdefault(key, []).append(w)
    return out, windowless


def oracle_wholerun(ctx, res):
    """every estimated_emissions.csv of one real run against (i) the survey log observed in the run:
    every completed survey owns exactly one window that contains its completion date, no row without
    a window; (ii) tiling / volume; (iii) the share of every interval given to the larger measurement
    against the CONFIGURED factor; plus the dates-in-period hypothesis and the simulated-days reading"""
    cfg = res.cfg
    comp_mode = cfg["duration_method"] == "component-based"
    mname = MODE_NAME[1 if comp_mode else 0]
    f = float(cfg["duration_factor"])   # from the configuration, not from the Program object
    S, E = 0, res.ndays - 1
    inp_cfg = {"cfg": cfg}
    log, multi = survey_log(res)
    ctx.count("wholerun_survey_steps_left_in_progress", multi)
    if multi:
        ctx.count("wholerun_configs_with_multi_day_surveys")
    for per in log.values():
        for days in per.values():
            ctx.count("wholerun_completed_surveys", len(days))
            ctx.count("wholerun_completed_surveys_inside_period", sum(1 for d in days if 0 <= d <= E))
    for prog in res.programs:
        for sim in range(res.n_sims):
            per = log.get((prog, sim), {})
            got = wholerun_groups(res, prog, sim, comp_mode)
            if got is None:
                ctx.count("wholerun_program_sims_without_estimate_file")
                if not per:
                    ctx.count("wholerun_not_judged:no-survey-completed-by-the-program")
                elif comp_mode:
                    # component mode writes a file only if some survey reported a component; the log does not
                    # say which surveys detected something
                    ctx.count("wholerun_not_judged:component-mode-surveys-without-estimate-file")
                if not comp_mode and per:
                    ctx.violate("C13:wholerun:site:surveys-but-no-estimate-file",
                                "sites were surveyed but the program wrote no estimated emissions file",
                                dict(inp_cfg, program=prog, sim=sim, surveyed_sites=sorted(per)[:10]))
                continue
            groups, windowless = got
            ctx.count("wholerun_estimate_files")
            where = dict(inp_cfg, program=prog, sim=sim)
            known_sites = {_site_key(x["id"]) for x in cfg["sites"]}
            foreign = sorted({k[0] for k in groups} - known_sites)
            if foreign:
                ctx.violate(f"C13:wholerun:{mname}:windows-for-a-site-that-is-not-in-the-configuration",
                            "the file carries windows of a site the configuration does not contain",
                            dict(where, sites=foreign[:10], configured=sorted(known_sites)[:20]))
            if windowless:
                ctx.violate(f"C13:wholerun:{mname}:measurement-without-window",
                            "rows of the estimated emissions file have no Start/End Date (or a NaN rate / volume): "
                            "a completed survey owns no estimation window",
                            dict(where, n_rows=len(windowless), group=list(windowless[0][0]), row=windowless[0][1]))
            if not comp_mode:
                # every completed survey of the log owns exactly one window, which contains its date
                for site in sorted(set(per) | {k[0] for k in groups}):
                    days = per.get(site, [])
                    ws = groups.get((site, "", ""))
                    ctx.evaluations += 1
                    if ws is None:
                        ctx.violate("C13:wholerun:site:surveyed-site-without-windows",
                                    "a site with completed surveys has no windows in the file", dict(where, group=[site], survey_days=days))
                        continue
                    n_here = len(ws) + sum(1 for k, _ in windowless if k[0] == site)
                    if n_here != len(days) + 2:
                        ctx.violate("C13:wholerun:site:surveys-and-windows-differ-in-number",
                                    "the number of rows of a site is not 2 + the number of surveys completed at it",
                                    dict(where, group=[site], survey_days=days, rows=n_here))
                        continue
                    if len(ws) == len(days) + 2:
                        for w, d in zip(ws, sorted(days + [S, E])):
                            w["date"] = d
                        ctx.count("wholerun_windows_matched_with_the_survey_log", len(days))
            else:
                for key, ws in groups.items():
                    days = set(per.get(key[0], [])) | {S, E}
                    for w in ws:
                        ctx.evaluations += 1
                        if w["date"] not in days:
                            ctx.violate("C13:wholerun:component:window-date-not-in-the-survey-log",
                                        "a component's row carries a survey date on which no survey of the site was completed",
                                        dict(where, group=list(key), date=w["date"], survey_days=sorted(days)))
                            break
                    else:
                        ctx.count("wholerun_windows_matched_with_the_survey_log", max(0, len(ws) - 2))
            for key, ws in groups.items():
                for w in ws:
                    if "date" in w and not (w["start"] <= w["date"] <= w["stop"]):
                        ctx.violate(f"C13:wholerun:{mname}:window-does-not-contain-its-survey-date",
                                    "a window does not contain the completion date of the survey it extrapolates",
                                    dict(where, group=list(key), window=[w["start"], w["stop"]], date=w["date"]))
                        break
            ts = res.timeseries(prog, sim)
            n_sim_days = len(ts) if ts is not None else None
            # key ids are strings here; oracle_table only needs them to be sortable
            case = (1 if comp_mode else 0, f, S, E, 1, [])
            nv = len(ctx.violations)
            oracle_table(ctx, case, {k: v for k, v in groups.items() if v}, origin=f"wholerun:{prog}:{sim}", check_cover=False)
            for v in ctx.violations[nv:]:
                v["input"].update(inp_cfg)
            for key, ws in groups.items():
                if not ws:
                    continue
                ctx.evaluations += 1
                ctx.count("wholerun_groups")
                if len(ws) > 2:
                    ctx.count("wholerun_groups_with_surveys")
                    ctx.nontrivial.add(("wholerun", cfg["duration_method"], f, tuple((w["start"], w["stop"]) for w in ws)))
                    if all("date" in w for w in ws):
                        ctx.count("wholerun_intervals_share_checked_against_configured_factor", len(ws) - 1)
                for w in ws:
                    if "date" in w:
                        ctx.count("wholerun_report_dates")
                        if S <= w["date"] <= E:
                            ctx.count("wholerun_report_dates_inside_period")
                if not tiling_kinds(S, E, ws) and n_sim_days is not None:
                    covered = sum(w["stop"] - w["start"] for w in ws)
                    if covered == n_sim_days - 1:
                        ctx.violate("C13:period:last-simulated-day-in-no-window",
                                    "the windows cover [start date, end date) = N-1 days, the simulation ran N days",
                                    dict(inp_cfg, program=prog, sim=sim, group=list(key), days_covered=covered,
                                         simulated_days=n_sim_days))
                    elif covered != n_sim_days:
                        ctx.violate("C13:period:days-covered",
                                    "days covered by the windows differ from the simulated days by more than the last day",
                                    dict(inp_cfg, program=prog, sim=sim, group=list(key), days_covered=covered,
                                         simulated_days=n_sim_days))


def wholerun_corpus():
    """stored whole-run witnesses (corpus/C13_wholerun_*.json), run first"""
    import glob
    import json
    import os
    return [json.load(open(p)) for p in sorted(glob.glob(os.path.join(core.VERIF, "corpus", "C13_wholerun_*.json")))]


def crash_signature(log):
    """narrow class of a crashed run that concerns C13: the traceback passes through the estimation
    code (program_output.py / program_output_helpers.py); -> signature or None"""
    import re
    if "program_output.py" not in log and "program_output_helpers.py" not in log:
        return None
    fn = re.findall(r'File "[^"]*program_output(?:_helpers)?\.py", line \d+, in (\w+)', log)
    exc = re.findall(r"^(\w+(?:Error|Exception))\b", log, flags=re.M)
    return "C13:crash:wholerun:%s:%s" % (exc[-1] if exc else "Exception", fn[-1] if fn else "?")


def oracle_to_remove(ctx, res):
    """the companion file <program>_<sim>_estimated_repaired_emissions_to_remove.csv is produced by the
    same call; every row must carry a finite, non-negative volume over a non-negative span"""
    for prog in res.programs:
        for sim in range(res.n_sims):
            rows = res.estimated_to_remove(prog, sim)
            for r in rows or []:
                ctx.count("wholerun_to_remove_rows")
                a, b = res.day_index(r.get(COL_START)), res.day_index(r.get(COL_END))
                try:
                    v = float(r.get(COL_VOL, "nan") or "nan")
                except ValueError:
                    v = float("nan")
                if a is None or b is None or b < a or not (v >= 0.0) or v == float("inf"):
                    ctx.violate("C13:to-remove:undefined-volume",
                                "a row of the estimated-repaired-emissions-to-remove file has no end date / a NaN or negative volume",
                                {"cfg": res.cfg, "program": prog, "sim": sim, "row": dict(r)})
                elif a == b:
                    ctx.count("wholerun_to_remove_rows_with_zero_span")


def wholerun_stage(ctx):
    import concurrent.futures as cf
    from harness import wholerun as WR
    corpus = wholerun_corpus()
    ctx.count("wholerun_corpus_configs", len(corpus))
    wide_cfgs = wholerun_wide_configs(ctx)
    near_cfgs = [near_tie_config(ctx, i) for i in range(ctx.pick(1, 3))]
    hist_jobs = history_runs(ctx, ctx.pick(1, 4))
    cfgs = corpus + wholerun_configs(ctx, ctx.pick(2, 7)) + wide_cfgs + near_cfgs
    ctx.count("wholerun_near_tie_configs", len(near_cfgs))
    for c in wide_cfgs:
        ctx.count("wholerun_wide_configs")
        if c["_c13_wide"] == "all":
            ctx.count("wholerun_wide_configs_all_tags")
        for a in c.get("wide_applied", []):
            ctx.count("wholerun_wide_applied:" + a["tag"])
    ctx.extra["wide_applied"] = [{"tags": c["_c13_wide"], "method": c["duration_method"], "factor": c["duration_factor"],
                                  "n_sims": c["n_sims"],
                                  "applied": [[a["tag"], "/".join(map(str, a["path"][1:])), a["value"]] for a in c.get("wide_applied", [])]}
                                 for c in wide_cfgs]
    # LESSONS 4: the same configuration through the process pool (2 processes; in the thorough tier 5
    # simulations x 3-4 programs = more tasks than 4 x processes, two simulations per worker) with the
    # programs listed in reverse order: every program's estimation files must be the ones of the
    # sequential (debug) run
    n_mode = ctx.pick(1, 2)
    mode_cfgs = []
    for _ in range(n_mode):
        mode = ctx.rng.choice(["measurement-based", "component-based"])
        mode_cfgs.append(WR.make_config(ctx.rng, duration_method=mode, duration_factor=ctx.rng.choice(WR_FACTORS),
                                        n_sims=ctx.pick(2, 5), ndays=ctx.pick(60, 120), n_sites=ctx.rng.randint(3, 5)))

    def snapshot(res):
        return {(p, s): (res.estimated(p, s), res.estimated_to_remove(p, s)) for p in res.programs for s in range(res.n_sims)}

    def mode_job(cfg):
        """one generated scenario (inputs and generator folder kept) three times: sequential, pool,
        pool with the programs listed in reverse order"""
        import tempfile
        import shutil
        wd = tempfile.mkdtemp(prefix="ldarverif_c13mode_")
        try:
            out = []
            rev = dict(cfg)
            rev["programs"] = list(reversed(cfg["programs"]))
            variants = ((cfg, True, 1), (cfg, False, 2), (rev, False, 2)) if not ctx.quick else ((cfg, True, 1), None, (rev, False, 2))
            for v in variants:
                if v is None:
                    out.append(None)
                    continue
                (c, dbg, procs) = v
                r = WR.run_config(c, debug=dbg, processes=procs, trace=False, workdir=wd, keep_inputs=True)
                out.append((r.rc, r.log[-1500:], snapshot(r) if r.rc == 0 else None))
            return out
        finally:
            shutil.rmtree(wd, ignore_errors=True)

    with cf.ThreadPoolExecutor(max_workers=min(8, len(cfgs) + len(mode_cfgs))) as ex:
        mode_futs = [ex.submit(mode_job, m) for m in mode_cfgs]
        hist_futs = [ex.submit(lambda j: WR.run_after(j[0], j[1], debug=True, trace=True), j) for j in hist_jobs]
        allres = list(ex.map(lambda c: WR.run_config(c, debug=True, trace=True), cfgs))
        mode_out = [f.result() for f in mode_futs]
        hist_res = [f.result() for f in hist_futs]
    for (prev, cfg_h, what), r in zip(hist_jobs, hist_res):
        ctx.count("history:" + what)
        if r.prev_rc != 0:
            ctx.count("history_first_run_stopped")
    allres = allres + hist_res
    results = allres
    try:
        for mcfg, runs in zip(mode_cfgs, mode_out):
            (rc0, log0, snap0) = runs[0]
            if rc0 != 0:
                sig = crash_signature(log0)
                if sig:
                    ctx.violate(sig, "the simulator crashed inside the estimation code: " + log0.strip().splitlines()[-1][:200],
                                {"cfg": mcfg, "log_tail": log0})
                else:
                    ctx.count("wholerun_not_judged:crashed-outside-the-estimation-code")
                    ctx.note("mode configuration crashed outside the estimation code (not judged by C13): "
                             + (log0.strip().splitlines() or ["?"])[-1][:200])
                continue
            ctx.count("wholerun_mode_configs")
            for name, run in (("pool", runs[1]), ("pool-programs-reversed", runs[2])):
                if run is None:
                    continue
                (rc, log, snap) = run
                if rc != 0:
                    ctx.violate(crash_signature(log) or "C13:mode:pool-run-crashes-where-the-sequential-run-does-not",
                                f"the {name} run crashed, the sequential run of the same scenario did not: "
                                + log.strip().splitlines()[-1][:200], {"cfg": mcfg, "mode": name, "log_tail": log})
                    continue
                for key in sorted(snap0):
                    ctx.count("wholerun_mode_program_sims_compared")
                    ctx.evaluations += 1
                    if snap.get(key) != snap0[key]:
                        ctx.violate("C13:mode:estimation-files-differ-between-sequential-and-pool-run",
                                    f"program {key[0]} simulation {key[1]}: the estimated emissions files of the {name} "
                                    "run differ from the sequential run of the same scenario",
                                    {"cfg": mcfg, "mode": name, "program": key[0], "sim": key[1]})
                        break
        for res in results:
            if res.rc != 0:
                ctx.count("wholerun_config_crashed")
                sig = crash_signature(res.log)
                if sig:
                    ctx.violate(sig, "the simulator crashed inside the estimation code: no estimated emissions "
                                     "file for the program: " + res.log.strip().splitlines()[-1][:200],
                                {"cfg": res.cfg, "log_tail": res.log[-1500:]})
                else:
                    ctx.count("wholerun_not_judged:crashed-outside-the-estimation-code")
                    ctx.note("whole-run configuration crashed outside the estimation code (not judged by C13): "
                             + json_short(res.cfg.get("wide_applied")) + " "
                             + res.log[-300:].replace("\n", " | "))
                continue
            ctx.count("wholerun_configs")
            ctx.count("wholerun_configs_" + res.cfg["duration_method"])
            oracle_wholerun(ctx, res)
            oracle_to_remove(ctx, res)
            count_near_ties(ctx, res)
            ctx.traces += 1
        if results and results[0].rc == 0:
            r0 = results[0]
            for prog in r0.programs:
                rows = r0.estimated(prog, 0)
                if rows:
                    ctx.sample({"wholerun": {"method": r0.cfg["duration_method"], "factor": r0.cfg["duration_factor"],
                                             "period": [str(r0.start), str(r0.end)], "program": prog},
                                "estimated_emissions_csv_rows": [[r[COL_SITE], r[COL_START], r[COL_END], r[COL_RATE], r[COL_VOL]]
                                                                 for r in rows[:4]]})
                    break
    finally:
        for res in allres:
            res.cleanup()


# ----------------------------------------------------------------------------------------------
# LESSONS 1: history independence;  2: calendar;  7: robustness
# ----------------------------------------------------------------------------------------------
def pick_style(rng, case):
    """naming style of the ids; the pool of awkward names is finite"""
    ok = all(r[0] < len(W.WEIRD_SITES) and r[1] < len(W.WEIRD_EQG) and r[2] < len(W.WEIRD_COMP) for r in case[5])
    return rng.choice(["str", "int", "weird"] if ok else ["str", "int"])


def drain_adapter_issues(ctx):
    """unexpected code shapes / history effects noticed by the adapter become broken obligations"""
    for msg in sorted(set(W.SHAPE_ISSUES)):
        ctx.broke("adapter: unexpected shape of the report code", msg)
    del W.SHAPE_ISSUES[:]
    for (msg, case) in W.HISTORY_ISSUES[:5]:
        ctx.violate("C13:history:" + msg.split()[0] + "-" + msg.split()[1], msg,
                    {"case": [case[0], case[1], case[2], case[3], case[4], [list(r) for r in case[5]]], "origin": "audit"})
    del W.HISTORY_ISSUES[:]


def effects_audit(ctx):
    """table of module-level state in the two modules the model covers: any module-level mutable
    container, cache decorator, `global` statement, mutable default argument or attribute stored on
    a function/module is a place where one report could influence the next.  The model has no such
    state, so every entry is a broken obligation (the history stage then searches a failing input)."""
    import ast
    import os
    from harness import shim
    found = []
    base = os.path.join(shim.REPO_SRC, "file_processing", "output_processing")
    for fn in ("program_output.py", "program_output_helpers.py"):
        try:
            tree = ast.parse(open(os.path.join(base, fn)).read())
        except Exception as e:
            ctx.broke(f"effects audit: {fn} unreadable", str(e))
            continue
        mutable = (ast.List, ast.Dict, ast.Set, ast.ListComp, ast.DictComp, ast.SetComp, ast.Call)
        for node in tree.body:
            if isinstance(node, (ast.Assign, ast.AnnAssign, ast.AugAssign)):
                val = node.value
                if val is not None and isinstance(val, mutable):
                    found.append(f"{fn}:{node.lineno} module-level {type(val).__name__}")
        for node in ast.walk(tree):
            if isinstance(node, (ast.Global, ast.Nonlocal)):
                found.append(f"{fn}:{node.lineno} {type(node).__name__.lower()} statement")
            if isinstance(node, (ast.FunctionDef, ast.AsyncFunctionDef)):
                for d in node.decorator_list:
                    if "cache" in ast.unparse(d):
                        found.append(f"{fn}:{node.lineno} cache decorator on {node.name}")
                for d in list(node.args.defaults) + [k for k in node.args.kw_defaults if k is not None]:
                    if isinstance(d, mutable):
                        found.append(f"{fn}:{node.lineno} mutable default argument of {node.name}")
            if isinstance(node, ast.ClassDef):
                found.append(f"{fn}:{node.lineno} class {node.name} (the model knows no class here)")
    ctx.extra["module_level_state_in_modelled_modules"] = found
    ctx.obligations.append("effects:no-module-level-state-in-program_output(_helpers)")
    if found:
        ctx.broke("effects:no-module-level-state-in-program_output(_helpers)", "\n".join(found))
    else:
        ctx.discharged.append("effects:no-module-level-state-in-program_output(_helpers)")


def history_pairs(rng, n):
    """pairs (A, B) of tables with COLLIDING keys and differing content: same site / equipment /
    component ids, B with other dates, rates, period and factor"""
    pairs = []
    for i in range(n):
        a = random_table(rng, dyadic_factor(rng), boundary=(i % 2 == 0))
        (mode, f, S, E, scale, recs) = a
        if not recs:
            continue
        kind = i % 3
        if kind == 0:    # same ids and period, other rates and dates
            recs_b = [(r[0], r[1], r[2], rng.randint(S, E), rng.choice(RATE_POOL)) for r in recs]
            b = (mode, f, S, E, scale, recs_b)
        elif kind == 1:  # same ids, period moved and resized, other factor
            sh = rng.choice([1, -1, 365, 366, 17])
            S2, E2 = S + sh, E + sh + rng.choice([0, 1, 5])
            recs_b = [(r[0], r[1], r[2], min(max(r[3] + sh, S2), E2), r[4]) for r in recs]
            b = (mode, dyadic_factor(rng), S2, E2, scale, recs_b)
        else:            # same ids, other mode
            b = (1 - mode, f, S, E, scale, recs)
        pairs.append((a, b))
    return pairs


def history_stage(ctx):
    """consecutive cases in one process, both orders, against the same case run alone in a fresh
    process and against the model (which has no cross-case state)"""
    import concurrent.futures as cf
    rng = ctx.rng
    pairs = history_pairs(rng, ctx.pick(6, 40))
    style = rng.choice(["str", "int", "weird"])  # random_table ids stay inside the name pools

    def js(c):
        return [c[0], c[1], c[2], c[3], c[4], [list(r) for r in c[5]]]

    A = [js(a) for a, _ in pairs]
    B = [js(b) for _, b in pairs]
    inter = [x for ab in zip(A, B) for x in ab]          # A1 B1 A2 B2 ...
    inter_rev = [x for ab in zip(B, A) for x in ab]      # B1 A1 B2 A2 ...
    jobs = {"alone_A": A[:3], "alone_B": B[:3], "AB": inter, "BA": inter_rev}
    try:
        with cf.ThreadPoolExecutor(max_workers=4) as ex:
            futs = {k: ex.submit(W.run_cases_fresh, v, style) for k, v in jobs.items()}
            # truly alone: one fresh process per case for the first pair
            solo = [ex.submit(W.run_cases_fresh, [c], style) for c in (A[0], B[0])]
            res = {k: f.result() for k, f in futs.items()}
            solo = [f.result()[0] for f in solo]
    except Exception as e:
        ctx.broke("history stage: fresh-process runs", str(e)[-600:])
        return
    ab_A, ab_B = res["AB"][0::2], res["AB"][1::2]
    ba_B, ba_A = res["BA"][0::2], res["BA"][1::2]
    # this process: A, B, A again (after everything the earlier stages did in this process)
    here = []
    for (a, b) in pairs:
        ra1 = W.report_to_json(W.impl_report(a, style))
        rb = W.report_to_json(W.impl_report(b, style))
        ra2 = W.report_to_json(W.impl_report(a, style))
        here.append((ra1, rb, ra2))
    for i, (a, b) in enumerate(pairs):
        variants_a = {"after B (fresh process)": ba_A[i], "before B (fresh process)": ab_A[i],
                      "in the check's process": here[i][0], "again after B in the check's process": here[i][2]}
        variants_b = {"after A (fresh process)": ab_B[i], "before A (fresh process)": ba_B[i],
                      "in the check's process": here[i][1]}
        if i == 0:
            variants_a["alone (own process)"] = solo[0]
            variants_b["alone (own process)"] = solo[1]
        if i < 3:
            variants_a["first cases of a process"] = res["alone_A"][i]
            variants_b["first cases of a process"] = res["alone_B"][i]
        for (case, other, variants) in ((a, b, variants_a), (b, a, variants_b)):
            ctx.evaluations += len(variants)
            ref_name, ref = next(iter(variants.items()))
            for name, v in variants.items():
                if v != ref:
                    ctx.violate(f"C13:history:{MODE_NAME[case[0]]}:result-depends-on-earlier-reports",
                                f"the same table gives different windows {name} than {ref_name}",
                                {"case": js(case), "before": [js(other)], "style": style, "origin": "history",
                                 "differs": name, "reference": ref_name})
                    break
        ctx.count("history_pairs")
    # every variant is also judged by the oracle / model through the normal table path
    run_tables(ctx, [a for a, _ in pairs] + [b for _, b in pairs], exact=True, origin="history", style_rng=rng)


def year_shift_stage(ctx):
    """a period and its reports moved by exactly one year (same length): the windows must move with
    it.  Calendars are read by Python's date arithmetic, not by the code's Timestamp subtraction."""
    import datetime as _dt
    rng = ctx.rng
    n = ctx.pick(30, 450)
    cases = [random_table(rng, float_factor(rng) if i % 2 else dyadic_factor(rng), boundary=(i % 3 != 0)) for i in range(n)]
    for case in cases:
        (mode, f, S, E, scale, recs) = case
        d0 = W.day2date(S)
        try:
            d1 = d0.replace(year=d0.year + 1)
        except ValueError:          # Feb 29
            d1 = _dt.date(d0.year + 1, 3, 1)
        sh = (d1 - d0).days          # 365 or 366
        shifted = (mode, f, S + sh, E + sh, scale, [(r[0], r[1], r[2], r[3] + sh, r[4]) for r in recs])
        try:
            r0 = W.impl_report(case)
            r1 = W.impl_report(shifted)
        except Exception as e:
            ctx.violate(f"C13:crash:{MODE_NAME[mode]}:{type(e).__name__}", f"the report function raised {type(e).__name__}: {e}",
                        {"case": [mode, f, S, E, scale, [list(r) for r in recs]], "origin": "year_shift"})
            continue
        ctx.evaluations += 1
        rel0 = {k: [(w["start"] - S, w["stop"] - S, w["rate_num"], w["vol"]) for w in ws] for k, ws in r0.items()}
        rel1 = {k: [(w["start"] - S - sh, w["stop"] - S - sh, w["rate_num"], w["vol"]) for w in ws] for k, ws in r1.items()}
        if rel0 != rel1:
            ctx.violate(f"C13:calendar:{MODE_NAME[mode]}:windows-change-when-the-period-moves-by-one-year",
                        f"the same reports {sh} days later give other windows relative to the start date",
                        {"case": [mode, f, S + sh, E + sh, scale, [list(r) for r in shifted[5]]], "origin": "year_shift",
                         "unshifted_case": [mode, f, S, E, scale, [list(r) for r in recs]]})
        oracle_table(ctx, shifted, r1, origin="year_shift")
        ctx.count("year_shift_pairs")
        if d0.year % 4 == 0 or d1.year % 4 == 0:
            ctx.count("year_shift_pairs_touching_a_leap_year")


def _stage(ctx, name, t0):
    import time
    ctx.extra.setdefault("stage_seconds", {})[name] = round(time.time() - t0, 1)
    return time.time()


def run(ctx):
    import time
    t = time.time()
    ctx.rule = ("(a) float grid: every triple (f, gap, ordering of the two rates) with f = k/1000, k = 0..1000, "
                "gap = 0..2000 through the real calculate_start_date/calculate_end_date, plus seeded random and "
                "adversarial doubles x all gaps; non-trivial = gap x f is not a whole number (rounding decides), "
                "distinct by (f, gap, ordering), counted from the model's floor/ceil reference; "
                "(b) survey tables: structured-exhaustive core (1-2 surveys on every pair of days of periods of "
                "1..5 days x rates {0,1,2}^2 x dyadic factors) + seeded random tables in both modes (1-12 sites, "
                "up to 3x3 components, repeated dates, surveys on first/last day, zero/equal rates, periods up "
                "to 4000 days) with dyadic factors (model diff) and arbitrary doubles (oracle only); "
                "non-trivial group = some interval with gap x f not whole, distinct by (mode, f, sequence of "
                "(gap, rate ordering))")
    ctx.nontrivial = _Keys()
    core.lean_stage(ctx, MODULE, FILE, drivers=["drv_window"])
    t = _stage(ctx, "lean_build_and_audit", t)
    check_constant(ctx)
    rng = ctx.rng
    state = {"t": t}

    def guarded(name, fn):
        """LESSONS 7: an unexpected shape / crash inside a stage is a broken obligation and the
        search for a failing input goes on with the next stage (never exit 2, never a silent skip)"""
        import traceback
        try:
            fn()
        except core.InfraError:
            raise
        except Exception:
            ctx.broke(f"stage {name} raised", traceback.format_exc())
        drain_adapter_issues(ctx)
        state["t"] = _stage(ctx, name, state["t"])

    def st_corpus():
        run_tables(ctx, CORPUS, exact=False, origin="corpus", style_rng=rng)
        run_tables(ctx, CORPUS_EXACT, exact=True, origin="corpus_exact", style_rng=rng)
        repeated_site_in_tf(ctx)
        ctx.sample({"table_case(mode,f,S,E,scale,recs)": list(CORPUS[0][:5]) + [[list(r) for r in CORPUS[0][5]]],
                    "impl_windows": canon_impl(W.impl_report(CORPUS[0]))[(1, -1, -1)]})

    grid = [k / 1000 for k in range(1001)]

    def st_grid():
        # float confrontation: the grid of the property statement, completely
        failing = confront(ctx, grid, "grid")
        report_failing(ctx, failing, "grid")
        ctx.exhaustive = False  # the grid is enumerated completely; the property's domain (all reals) is not

    def st_cross():
        sub = sorted(rng.sample(grid, ctx.pick(120, 500)) + [0.7, 0.8])
        scalar_crosscheck(ctx, sub)
        dy = [k / 1024 for k in range(1025)]
        exact_grid(ctx, dy if not ctx.quick else sorted(set(dy[::16] + rng.sample(dy, 60))))

    def st_random_doubles():
        nrand = ctx.pick(300, 8000)
        rand = list(dict.fromkeys(NASTY + [rng.random() for _ in range(nrand)]
                                  + [math.nextafter(k / 1000, rng.choice([0.0, 1.0])) for k in rng.sample(range(1, 1000), ctx.pick(40, 600))]))
        rand = [f for f in rand if f not in set(grid) and 0.0 <= f <= 1.0]
        failing = confront(ctx, rand, "random_doubles")
        report_failing(ctx, failing, "random_doubles")
        ctx.sample({"float_triple": {"f": 0.7, "gap": 10, "orderings": "both"},
                    "helpers(endT,endF,startT,startF)": [int(x[10]) for x in W.helper_offsets(0.7, 0, 20)[1:]]})

    n_rand = ctx.pick(110, 1900)

    def st_tables_exact():
        # whole tables, exact factors: model vs implementation
        fs8 = [k / 8 for k in range(9)]
        core_fs = fs8 if not ctx.quick else sorted(rng.sample(fs8, 3) + [0.5])
        cases = list(exhaustive_small_tables(core_fs))
        run_tables(ctx, cases, exact=True, origin="exhaustive_small", style_rng=rng)
        cases = [random_table(rng, dyadic_factor(rng), big=(i % 25 == 0), boundary=(i % 3 == 1)) for i in range(n_rand)]
        for j in range(0, len(cases), 500):
            run_tables(ctx, cases[j:j + 500], exact=True, origin="random_exact", style_rng=rng)
        for c in cases[:2]:
            ctx.sample({"table_case": [c[0], c[1], c[2], c[3], c[4], [list(r) for r in c[5]][:8]]})
        # measurements that are ties up to rounding (1 ulp ... 1e-6, both signs) next to exact ties
        nt_fs = [1.0, 0.0, 0.25] if ctx.quick else [1.0, 0.0, 0.25, 0.375]
        run_tables(ctx, list(near_tie_core(nt_fs, small=ctx.quick)), exact=True, origin="near_tie_core", style_rng=rng)
        cases = [near_tie_table(rng, dyadic_factor(rng)) for _ in range(ctx.pick(40, 400))]
        run_tables(ctx, cases, exact=True, origin="near_tie_exact", style_rng=rng)

    def st_tables_float():
        cases = [near_tie_table(rng, float_factor(rng)) for _ in range(ctx.pick(30, 300))]
        run_tables(ctx, cases, exact=False, origin="near_tie_float", style_rng=rng)
        # whole tables, arbitrary doubles: oracle on the implementation
        cases = [random_table(rng, float_factor(rng), big=(i % 25 == 0), boundary=(i % 3 == 1)) for i in range(n_rand)]
        for j in range(0, len(cases), 500):
            run_tables(ctx, cases[j:j + 500], exact=False, origin="random_float", style_rng=rng)

    def st_manager():
        # whole path through the output manager down to the CSV file
        for i in range(ctx.pick(12, 150)):
            case = random_table(rng, float_factor(rng) if i % 2 else dyadic_factor(rng), boundary=(i % 3 == 0))
            style = pick_style(rng, case)
            try:
                direct = W.impl_report(case, style)
                viacsv = W.manager_report(case, style)
            except Exception as e:
                ctx.violate(f"C13:crash:manager:{type(e).__name__}", f"the output manager path raised {type(e).__name__}: {e}",
                            {"case": [case[0], case[1], case[2], case[3], case[4], [list(r) for r in case[5]]],
                             "origin": "manager_csv", "style": style})
                continue
            a = {k: [(w["start"], w["stop"], w["rate_num"], w["vol"]) for w in ws] for k, ws in direct.items()}
            b = {k: [(w["start"], w["stop"], w["rate_num"], w["vol"]) for w in ws] for k, ws in viacsv.items()}
            if a != b:
                ctx.disagree("manager-csv", table_line(case), a, b)
            oracle_table(ctx, case, viacsv, origin="manager_csv")
            ctx.traces += 1
            ctx.evaluations += 1

    guarded("effects_audit", lambda: effects_audit(ctx))
    guarded("corpus", st_corpus)
    guarded("float_grid", st_grid)
    guarded("scalar_crosscheck_and_dyadic_grid", st_cross)
    guarded("random_doubles", st_random_doubles)
    guarded("tables_exact", st_tables_exact)
    guarded("tables_float", st_tables_float)
    guarded("history", lambda: history_stage(ctx))
    guarded("year_shift", lambda: year_shift_stage(ctx))
    guarded("manager_csv", st_manager)
    guarded("wholerun", lambda: wholerun_stage(ctx))
    ctx.assumptions.append("the period of the statement is [start date, end date): the last window ends ON the end "
                           "date as the property says, the last simulated day itself is in no window (known "
                           "finding F7c, C13_inclusive_counterexample)")
    ctx.assumptions.append("survey reports lie inside [start date, end date]; rates are finite (grid n/8 g/s); "
                           "factor in [0,1]; exact-rational theorems reach the float code through "
                           "C13_tiling_any_rounding, whose hypothesis is checked on the grid, not proved over doubles")


def replay(ctx, data):
    inp = data.get("input", {})
    if "cfg" in inp:
        from harness import wholerun as WR
        res = WR.run_config(inp["cfg"], debug=True, trace=True)
        try:
            if res.rc != 0:
                print("replay: the configuration crashed:", crash_signature(res.log), res.log[-800:])
                return 1 if crash_signature(res.log) else 2
            ctx.nontrivial = _Keys()
            oracle_wholerun(ctx, res)
            oracle_to_remove(ctx, res)
        finally:
            res.cleanup()
        known = {f["signature"] for f in core.load_findings()["findings"] if f["property"] == ctx.prop}
        seen = set()
        for v in ctx.violations:
            if v["signature"] not in seen:
                seen.add(v["signature"])
                i = v["input"]
                print("KNOWN-FINDING (listed):" if v["signature"] in known else "oracle:", v["signature"], "-",
                      v["what"], {k: i[k] for k in i if k not in ("cfg", "case", "log_tail")})
        return 1 if seen - known else 0
    if "case" not in inp:
        print("replay: broken obligation / correspondence:", data.get("broken_obligations"),
              data.get("correspondence_disagreements"))
        return 1
    c = inp["case"]
    case = (c[0], c[1], c[2], c[3], c[4], [tuple(r) for r in c[5]])
    impl = W.impl_report(case)
    print(f"mode={MODE_NAME[case[0]]} f={case[1]!r} period {W.day2date(case[2])} .. {W.day2date(case[3])}")
    for key, ws in sorted(impl.items()):
        print(" group", key)
        for w in ws:
            print("   survey %s rate %.4f  window [%s, %s)  volume %r" % (
                W.day2date(w["date"]) if "date" in w else "?", w["rate_num"] / case[4], W.day2date(w["start"]), W.day2date(w["stop"]), w["vol"]))
    oracle_table(ctx, case, impl, origin="replay")
    for v in ctx.violations:
        print("oracle:", v["signature"], "-", v["what"], v["input"].get("group"), v["input"].get("windows", ""))
    return 1 if ctx.violations else 0
