"""Same-process history (LESSONS 1) for C08 / C10.

Consecutive cases in ONE process whose keys collide (same method name, same site ids, same crew ids,
same date, same program-output name and method column names) but whose values differ, run forward
and in reverse; every case's outcome must be the same in both orders, and the same as when it is the
first thing a fresh process does.  The Lean model has no cross-case state, so any difference is a
failure of the property's clauses for at least one of the runs; it is reported with the sequence as
failing input.

`python -m harness.props._crew_history` (stdin: JSON list of items, stdout: one JSON reply list) is
the fresh-process runner; it honours LDAR_REPO through harness/shim.py.
Items: ["day", case] -> crew-day reply; ["mday", case] -> cost-day reply; ["row", first, ms, rep, nat, names]
-> row reply; ["constructs", per_day, per_site, upfront, builds] -> upfront list + cost block after.
"""
from __future__ import annotations

import json
import os
import subprocess
import sys

VERIF = os.path.dirname(os.path.dirname(os.path.dirname(os.path.abspath(__file__))))


def run_item(item):
    from harness.adapters import crew as C
    from harness.adapters import cost as K
    from harness.props import _crew_common as CC

    kind = item[0]
    try:
        if kind == "day":
            case = CC.case_from_json(item[1])
            return C.impl_day_reply(case, C.impl_day(case))
        if kind == "mday":
            m = item[1]
            case = tuple(m[:8]) + ([C.req_from_json(q) for q in m[8]],) + tuple(m[9:])
            r = K.impl_mday(case)
            return K.mday_reply(r) + " || " + C.impl_day_reply(K.mday_case_to_day(case)[0], r)
        if kind == "row":
            (_, first, ms, rep, nat, names) = item
            res = K.impl_row(first, [tuple(m) for m in ms], rep, nat, names=names)
            return K.row_reply(res)
        if kind == "constructs":
            res = K.impl_constructs(item[1], item[2], item[3], [tuple(b) for b in item[4]])
            return json.dumps([list(res[0]), res[2]], sort_keys=True, default=str)
    except Exception as e:   # noqa: BLE001  (reported by the caller as a difference)
        return "raised %s: %s" % (type(e).__name__, str(e)[:160])
    raise ValueError(kind)


def run_sequence(items):
    return [run_item(it) for it in items]


def run_fresh(items, timeout=600):
    """the sequence in a fresh interpreter"""
    env = dict(os.environ)
    env["PYTHONPATH"] = VERIF + os.pathsep + env.get("PYTHONPATH", "")
    env["PYTHONDONTWRITEBYTECODE"] = "1"
    p = subprocess.run(["/venv/bin/python", "-m", "harness.props._crew_history"], input=json.dumps(items), text=True,
                       stdout=subprocess.PIPE, stderr=subprocess.PIPE, cwd=VERIF, env=env, timeout=timeout)
    if p.returncode != 0:
        return None, p.stderr[-600:]
    return json.loads(p.stdout.strip().splitlines()[-1]), ""


def check_orders(ctx, prop, items, label, fresh=False):
    """forward and reverse; returns number of evaluations.  Violations carry the pair (earlier case,
    affected case) as failing input."""
    fwd = run_sequence(items)
    rev = run_sequence(items[::-1])[::-1]
    alone = None
    if fresh:
        a1, err1 = run_fresh(items)
        a2, err2 = run_fresh(items[::-1])
        if a1 is None or a2 is None:
            ctx.broke("%s history: fresh-process runner failed" % prop, err1 or err2)
        else:
            # the first item of each fresh process ran with no history at all
            alone = {0: a1[0], len(items) - 1: a2[0]}
            rev_fresh = a2[::-1]
            for k in range(len(items)):
                if a1[k] != fwd[k] or rev_fresh[k] != rev[k]:
                    ctx.violate("%s:history:%s:differs-in-fresh-process" % (prop, label),
                                "the same sequence of cases gives a different outcome in a fresh process than in the "
                                "check's process (state surviving from earlier cases)",
                                {"history": {"items": items, "index": k, "in_process": [fwd[k], rev[k]],
                                             "fresh": [a1[k], rev_fresh[k]]}})
                    break
    n = 0
    for k in range(len(items)):
        n += 1
        if fwd[k] != rev[k]:
            ctx.violate("%s:history:%s:order-dependent" % (prop, label),
                        "a case's outcome depends on which cases ran before it in the same process",
                        {"history": {"items": items, "index": k, "forward": fwd[k], "reverse": rev[k]}})
            break
        if alone and k in alone and alone[k] != fwd[k]:
            ctx.violate("%s:history:%s:differs-from-alone" % (prop, label),
                        "a case's outcome after other cases differs from the same case run first in a fresh process",
                        {"history": {"items": items, "index": k, "alone": alone[k], "in_sequence": fwd[k]}})
            break
    return n, fwd


def check_fresh(ctx, prop, items, label, in_process):
    """one fresh interpreter runs all items forward, another runs them in reverse; every item must
    come out the same in both (no history in a clean process) and the same as it did inside the
    check's own, long-lived process (`in_process[k]`)"""
    a1, e1 = run_fresh(items)
    a2, e2 = run_fresh(items[::-1])
    if a1 is None or a2 is None:
        ctx.broke("%s history: fresh-process runner failed" % prop, e1 or e2)
        return 0
    a2 = a2[::-1]
    for k in range(len(items)):
        if not (a1[k] == a2[k] == in_process[k]):
            # shrink the failing input: the item and the items that ran before it in the differing run
            ctx.violate("%s:history:%s:depends-on-process-history" % (prop, label),
                        "a case's outcome depends on what ran earlier in the same process (fresh forward / fresh reverse / "
                        "inside the check's process differ)",
                        {"history": {"items": items, "index": k, "fresh_forward": a1[k], "fresh_reverse": a2[k],
                                     "in_process": in_process[k]}})
            break
    return len(items)


def replay(ctx, prop, inp):
    h = inp["history"]
    items = h["items"]
    fwd = run_sequence(items)
    rev = run_sequence(items[::-1])[::-1]
    a1, e1 = run_fresh(items)
    a2, e2 = run_fresh(items[::-1])
    for k in range(len(items)):
        line = [fwd[k], rev[k], a1[k] if a1 else None, a2[::-1][k] if a2 else None]
        tag = "" if len(set(map(str, line))) == 1 else "   <-- differs"
        print("item %d %s: fwd/rev/fresh-fwd/fresh-rev%s" % (k, items[k][0], tag))
        if tag:
            for x in line:
                print("     ", str(x)[:200])
            ctx.violate("%s:history:order-dependent" % prop, "outcome depends on process history", inp)


if __name__ == "__main__":
    items = json.load(sys.stdin)
    print(json.dumps(run_sequence(items)))
