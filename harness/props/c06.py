"""C06 — survey frequency contract.

Lean: Props/C06.lean (requests_guarded, not_deployed_never_requested, done_le_required_partial,
all_done_when_feasible, stationary_once_per_workable_day, C06_stationary; C06_statement with
C06_counterexample, C06_calendar_counterexample, C06_count_counterexample, C06_feasible_counterexample).
Tie: the REAL ScheduledSurveyPlanner / StationarySurveyPlanner / MobileSchedule(GenericSchedule) /
StationarySchedule / Workplan / PriorityQueueWithFIFO driven through multi-year day loops with the
completion outcome of every planned request as input, compared day by day with drv_sched; stationary
schedules additionally through the real Method.deploy_crews with weather masks.  The plan hypothesis
of `all_done_when_feasible` is measured on the real `_generate_evenly_spaced_dates`.
Oracle: the clauses of the property on the implementation traces.
"""
from __future__ import annotations

import itertools
import os
from datetime import date, timedelta

from harness import core
from harness.props import _sched_common as SC
from harness.props import _sched_hardening as H

MANIFEST_ENTRY = {
    "text": "Lean theorems (Props/C06.lean) over the planner/schedule model, for every configuration and every multi-year history of days with arbitrary crew outcomes: requests_guarded (a routine request is issued only in a deployment year and month, with done < required for the year, no outstanding request and the plan date reached) and not_deployed_never_requested (frequency forced to 0 where the method is not deployed: never a request); done_le_required_partial (completed <= required for every site and year, by an invariant over the history, provided no carried-over survey completes in a year without requirement); all_done_when_feasible (if every request completes the day it is issued, plan dates are increasing, simulated and inside deployment months, then done = required after every full deployment year: induction over the days of the year); stationary_once_per_workable_day / C06_stationary (a deployed site is planned on every day of its calendar, observed iff workable, never twice), stationary_guard_ignores_done + stationary_every_workable_day (in a fully workable period every day is observed: 366 in a leap year), counted_on_completion_year (every kind of schedule books a completion once, on the completion day's year), not_deployed_never_planned / not_deployed_never_surveyed (never in a work plan, never counted where the method is not deployed), done_le_required_static (the count bound under the static decidable hypothesis StaticYears), calendar_partial / calendar_when_nothing_carried (only a carried request can be served outside the deployment calendar), all_done_in_year_from_quiet. The full-strength statement C06_statement is proved false of the code as it stands (C06_counterexample: a request issued in the deployment month is served after it; C06_count_counterexample: a survey carried over New Year is booked on a year without requirement; C06_feasible_counterexample: the real plan for months [2,5,10] x 4 has a date in November) — known findings F12/F15, replayed on the real classes on every run. Layer 3: queue_site_for_survey (scheduled / mobile / stationary planner) and add_to_surveys_done are translated from the current source to Lean on every run (Generated/PlannerSrc.lean) and Props/PlannerTie.lean proves them equal to the model's guardRoutine / guardStationary / finish. The model is tied to the real planner/schedule/work-plan/queue classes by day-by-day differential correspondence over multi-year loops; the plan hypothesis is measured on the real _generate_evenly_spaced_dates for month subsets x frequencies 1..24; the clauses are evaluated directly on component and whole-simulation traces.",
    "design_ref": "DESIGN.md 5.6, 4.3",
    "note": "trusted: Lean kernel + propext/Classical.choice/Quot.sound; the hand-written planner/schedule model (tied by sampled correspondence, not proof); dates are inputs of the model (year/month/day of each simulated day, taken from datetime.date in the harness); the evenly spaced plan dates are an input list regenerated from the real code on every run; crew outcomes are inputs; harness adapters and stubs",
    "technique": "Lean 4 invariant / induction proofs over the planner and schedule model + differential correspondence with the real classes over multi-year day loops + measured plan hypothesis + direct oracle on component and whole-run traces",
}

MODULE = "LdarModel.Props.C06"
FILE = "LdarModel/Props/C06.lean"

SIG_MONTH = "C06:calendar:carried-request-served-outside-deployment-month"
SIG_YEAR = "C06:calendar:carried-request-served-outside-deployment-year"
SIG_COUNT0 = "C06:count:carried-survey-booked-on-year-without-requirement"
SIG_KEY_DONE = "C06:keyerror:carried-survey-completes-in-year-outside-planner-years"
SIG_KEY_GUARD = "C06:keyerror:deployment-year-outside-planner-years"
SIG_GAP = "C06:feasible:plan-date-outside-deployment-calendar:count-not-reached"


# ------------------------------------------------------------------------------------------------
# oracle on one implementation trace
# ------------------------------------------------------------------------------------------------
def required_of(st, y):
    return st["rs"] if (y in st["sim_years"] and y in st["dep_years"]) else 0


def plan_hypothesis(st):
    """plan dates strictly increasing and every one in a deployment month (the generator's year is
    checked separately on the raw dates)"""
    pl = [tuple(p[:2]) for p in st["plan"]]
    return all(a < b for a, b in zip(pl, pl[1:])) and all(p[0] in st["months"] for p in pl)


def expected_sim_years(case):
    """the calendar years of the simulated period as documented for the planner: every year from the start year
    to the end year, the last one only if the period reaches the anniversary of the start date in it"""
    s, e = SC.D(case["start"]), SC.D(case["end"])
    last = e.year if (e.month, e.day) >= (s.month, s.day) else e.year - 1
    return list(range(s.year, last + 1))


def expected_static(ctx, case, static):
    """what the planners must hold according to the CONFIGURATION (deployment years: the configured list,
    all simulated years when it is empty; required surveys: the frequency where the method is deployed,
    365 for stationary; months as configured).  A planner that differs is a violation of its own; every
    later clause is evaluated against the configuration, not against what the planner believes."""
    conf = {s_["id"]: s_ for s_ in case.get("sites", [])}
    stationary = case["kind"] == "stationary"
    out = []
    for st in static:
        cs = conf.get(st["site"])
        if cs is None:
            out.append(st)
            continue
        years = list(cs.get("years") or [])
        e = dict(st)
        if case.get("method_class") != "wholerun":
            e["sim_years"] = expected_sim_years(case)
            if e["sim_years"] != list(st["sim_years"]):
                ctx.violate("C06:config:planner-counter-years-differ-from-simulated-period",
                            f"site {st['site']}: period {case['start']}..{case['end']} gives years {e['sim_years']}, "
                            f"the planner keeps counters for {st['sim_years']}", {"case": case, "site": st["site"]})
        e["dep_years"] = years if years else list(e["sim_years"])
        if stationary:
            e["rs"] = 365 if cs.get("deploy", True) else 0
        else:
            e["rs"] = (cs.get("freq") or 0) if cs.get("deploy", True) else 0
        e["months"] = sorted(cs.get("months", st["months"]))
        for key, sig in (("dep_years", "deployment-years"), ("rs", "required-surveys"), ("months", "deployment-months")):
            if (sorted(e[key]) if isinstance(e[key], list) else e[key]) != \
                    (sorted(st[key]) if isinstance(st[key], list) else st[key]):
                ctx.violate("C06:config:planner-" + sig + "-differ-from-configuration",
                            f"site {st['site']}: configured {key} {e[key]} (years list {years}, simulated "
                            f"{st['sim_years']}), the planner holds {st[key]}", {"case": case, "site": st["site"]})
        out.append(e)
    return out


def crews_oracle(ctx, case):
    """the real Method must deploy exactly the configured number of crews (crew_count > 0), the documented
    year-round estimate only when no crew count is configured"""
    used, reports = case.get("_crews_used"), case.get("_crew_reports")
    if used is None or case["kind"] == "stationary":
        return
    want = case["crews"] if case["crews"] > 0 else case.get("_crews_estimate")
    if want is not None and (used != want or reports != want):
        ctx.violate("C06:crews:deployed-crews-differ-from-configured",
                    f"configured crew_count {case['crews']} (documented estimate {case.get('_crews_estimate')}): the "
                    f"method initialised {reports} crew reports and hands {used} crews to its schedule",
                    {"case": case})


def capacity_oracle(ctx, case):
    """the number of surveys a crew is planned for per day that the real Method hands to its schedule must be the
    documented one (ceil of workday / average survey + travel time): with floor, or any smaller number, sites whose
    survey does not fit into one workday are never planned at all"""
    got, want = case.get("_cap_method"), case.get("_cap_documented")
    if got is None or want is None or case["kind"] == "stationary":
        return
    if got != want:
        ctx.violate("C06:capacity:daily-surveys-per-crew-differ-from-documented",
                    f"workday {case['hours']} h, survey times {[s_['S'] for s_ in case['sites']][:6]}, travel {case['T']}: "
                    f"documented ceil(workday / average survey+travel) = {want}, the method plans {got} per crew and day",
                    {"case": case})


def in_calendar(st, ymd):
    return ymd is not None and ymd[0] in st["dep_years"] and ymd[1] in st["months"]


def oracle_trace(ctx, case, static, trace, feasible=False):
    static = expected_static(ctx, case, static)
    crews_oracle(ctx, case)
    capacity_oracle(ctx, case)
    conf_cap = None
    if case["kind"] == "routine" and case.get("_cap_used") is not None and case.get("crews", 0) > 0:
        # configured crews x daily capacity (the given one, else the documented estimate -- never the method's own)
        cap_c = case["cap"] if case.get("cap") is not None else case.get("_cap_documented", case["_cap_used"])
        conf_cap = case["crews"] * cap_c
    stat = {st["site"]: st for st in static}
    conf = {s_["id"]: s_ for s_ in case.get("sites", [])}
    issued_on = {}     # site -> date of the outstanding request
    prev = {st["site"]: {"queued": 0, "done": {}} for st in static}
    stationary = case["kind"] == "stationary"
    by_report = {}
    outstanding_now = set()      # sites in the queue after the previous day (read from the queue content)
    for k, rec in enumerate(trace):
        y, m, d = rec["date"]
        before_done = {i: dict(v["done"]) for i, v in prev.items()}
        outstanding_prev = set(outstanding_now)
        inp = {"case": case, "day": k, "date": rec["date"]}
        seen = set(rec.get("plan") or []) | set(rec.get("issued") or []) | {e[2] for e in rec.get("queue") or []}
        if not seen <= set(stat):
            ctx.violate("C06:history:request-of-a-site-that-is-not-in-this-schedule",
                        f"sites {sorted(seen - set(stat))} are planned / queued on {rec['date']} but the method was built "
                        f"for {sorted(stat)}", inp)
            break
        if rec["crash"] and rec["crash"] != "key_error":
            ctx.violate("C06:crash:" + rec["crash"], f"{rec['crash']} raised by the schedule on {rec['date']}", inp)
            break
        if rec["crash"]:
            # which lookup raised?  guard lookup: a planner whose deployment years contain y but whose
            # counter dict does not; otherwise the completion booking
            guard = any(y in st["dep_years"] and y not in st["sim_years"] and m in st["months"]
                        and not prev[st["site"]]["queued"] for st in static)
            carried = any(y not in st["sim_years"] and prev[st["site"]]["queued"] for st in static)
            if guard:
                sig = SIG_KEY_GUARD
            elif carried:
                sig = SIG_KEY_DONE
            else:  # a KeyError that the missing counter year does not explain is not the known finding
                sig = "C06:crash:KeyError:unexpected"
            ctx.violate(sig, f"KeyError on {rec['date']}: planner counter years {static[0]['sim_years']}, "
                        f"outstanding {[i for i, v in prev.items() if v['queued']]}", inp)
            break
        if rec.get("n_puts") is not None and rec["n_puts"] != len(rec["issued"]):
            ctx.violate("C06:guard:request-without-flag-change",
                        f"{rec['n_puts']} requests entered the queue on {rec['date']}, {len(rec['issued'])} planners "
                        f"changed their queued flag", inp)
        # ---- guard of every issued request (independent re-evaluation)
        for i in rec["issued"]:
            st = stat[i]
            dn = by_report.get((i, y), 0)          # completed reports dated this year, not the planner's counter
            if dn != prev[i]["done"].get(y, 0):
                ctx.violate("C06:count:planner-counter-differs-from-completed-reports",
                            f"site {i}: {dn} completed reports dated {y}, planner counter {prev[i]['done'].get(y, 0)}", inp)
            why = None
            if y not in st["dep_years"]:
                why = "year-not-deployed"
            elif m not in st["months"]:
                why = "month-not-deployed"
            elif i in outstanding_prev:
                why = "already-outstanding"
            elif stationary:
                if required_of(st, y) <= 0:
                    why = "not-required"
            elif not dn < required_of(st, y):
                why = "done-not-below-required"
            elif not tuple(st["plan"][dn]) <= (m, d):
                why = "plan-date-not-reached"
            if why:
                ctx.violate("C06:guard:" + why, f"site {i} issued a request on {rec['date']}: {why}", inp)
            issued_on[i] = (y, m, d)
        # a request that should have been issued and was not (stationary: every calendar day)
        if stationary:
            for st in static:
                i = st["site"]
                if (y in st["dep_years"] and m in st["months"] and required_of(st, y) > 0
                        and i not in rec["plan"]):
                    ctx.violate("C06:stationary:deployed-site-not-planned",
                                f"site {i} holds no request on {rec['date']}", inp)
            if len(set(rec["plan"])) != len(rec["plan"]):
                ctx.violate("C06:stationary:site-twice", "a site is planned twice on one day", inp)
            if case.get("method_class") != "wholerun" and case.get("forced") is None and "workable" in rec:
                w = rec["workable"]
                outs_today = {o[0]: o[1] for o in rec["outcomes"]}
                for j, cs in enumerate(case["sites"]):
                    i = cs["id"]
                    st = stat[i]
                    if not (y in st["dep_years"] and m in st["months"] and required_of(st, y) > 0):
                        continue
                    ok = bool(w[j]) if isinstance(w, list) else bool(w)
                    if (outs_today.get(i) == "C") != ok:
                        ctx.violate("C06:stationary:observed-iff-workable",
                                    f"site {i} on {rec['date']}: workable={ok}, observation completed="
                                    f"{outs_today.get(i) == 'C'} (planned={i in rec['plan']})", inp)
        # ---- configured crews suffice for everything outstanding today => nothing may wait
        if conf_cap is not None and "queue_after_take" in rec:
            outstanding = len(rec["plan"]) + len(rec["queue_after_take"])
            if outstanding <= conf_cap and rec["queue_after_take"]:
                ctx.violate("C06:feasible:request-waits-although-configured-crews-suffice",
                            f"{outstanding} outstanding requests on {rec['date']}, configured crews x capacity = "
                            f"{conf_cap}, yet {[e[2] for e in rec['queue_after_take']]} stay in the queue "
                            f"(plan {rec['plan']})", inp)
        # ---- calendar membership of every survey worked on today
        for o in rec["outcomes"]:
            i, stt = o[0], o[1]
            if stt not in "CP":
                continue
            st = stat[i]
            carried = issued_on.get(i) != (y, m, d) and in_calendar(st, issued_on.get(i))
            if y not in st["dep_years"]:
                ctx.violate(SIG_YEAR if carried else "C06:calendar:survey-outside-deployment-year",
                            f"site {i} surveyed on {rec['date']} (request of {issued_on.get(i)}), "
                            f"deployment years {st['dep_years']}", inp)
            elif m not in st["months"]:
                ctx.violate(SIG_MONTH if carried else "C06:calendar:survey-outside-deployment-month",
                            f"site {i} surveyed on {rec['date']} (request of {issued_on.get(i)}), "
                            f"deployment months {st['months']}", inp)
            cs = conf.get(i, {})
            if st["rs"] == 0 or not cs.get("deploy", True) or (not stationary and cs.get("freq", 1) is None):
                ctx.violate("C06:calendar:survey-where-method-not-deployed",
                            f"site {i} surveyed on {rec['date']} although the method is not deployed there "
                            f"(deploy={cs.get('deploy')}, frequency={cs.get('freq')}, planner requires {st['rs']})", inp)
        # ---- counters
        for p in rec["planners"]:
            i = p["site"]
            st = stat[i]
            dn = dict((yy, n) for yy, n in p["done"])
            for yy, n in dn.items():
                before = prev[i]["done"].get(yy, 0)
                if n != before and yy != y:
                    ctx.violate("C06:count:wrong-counter-year", f"site {i}: counter of {yy} moved on {rec['date']}", inp)
                if n > required_of(st, yy) and not stationary and n != before:
                    carried = issued_on.get(i, (None,))[0] != yy and in_calendar(st, issued_on.get(i))
                    if required_of(st, yy) == 0 and carried:
                        ctx.violate(SIG_COUNT0, f"site {i}: survey requested on {issued_on.get(i)} completed on "
                                    f"{rec['date']}: done {n} > required 0 in {yy}", inp)
                    else:
                        ctx.violate("C06:count:exceeds-required",
                                    f"site {i}: done {n} > required {required_of(st, yy)} in {yy}", inp)
                if stationary and n - before > 1:
                    ctx.violate("C06:stationary:observed-twice", f"site {i} observed {n - before} times on one day", inp)
            prev[i] = {"queued": p["queued"], "done": dn}
        # ---- completed surveys counted from the reports the schedule returns, by COMPLETION DATE
        #      (independent of the planner's own counters), per (site, calendar year) against required
        for i, cd in rec.get("completed_reports") or []:
            st = stat[i]
            if cd is None or cd != [y, m, d]:
                ctx.violate("C06:count:report-completion-date", f"site {i}: report returned on {rec['date']} carries "
                            f"completion date {cd}", inp)
                continue
            by_report[(i, y)] = by_report.get((i, y), 0) + 1
            booked = [yy for yy, n in dict((yy, n) for yy, n in
                      next(p["done"] for p in rec["planners"] if p["site"] == i)).items()
                      if n != before_done[i].get(yy, 0)]
            if booked != [y]:
                ctx.violate("C06:count:booked-year-differs-from-completion-year",
                            f"site {i}: survey completed on {rec['date']} was booked on year(s) {booked}", inp)
            if not stationary and by_report[(i, y)] > required_of(st, y):
                carried = issued_on.get(i, (None,))[0] != y and in_calendar(st, issued_on.get(i))
                if required_of(st, y) == 0 and carried:
                    ctx.violate(SIG_COUNT0, f"site {i}: survey requested on {issued_on.get(i)} completed on "
                                f"{rec['date']}: 1 completed report > required 0 in {y}", inp)
                else:
                    ctx.violate("C06:count:completed-reports-exceed-required",
                                f"site {i}: {by_report[(i, y)]} completed survey reports dated {y}, required "
                                f"{required_of(st, y)} (planner counters: {prev[i]['done']})", inp)
        for o in rec["outcomes"]:
            if o[1] == "C":
                issued_on.pop(o[0], None)
        outstanding_now = {e[2] for e in rec["queue"]}
        ctx.count("oracle_days")
    # ---- all of them when feasible: every full deployment year of the run
    if feasible and trace and not trace[-1]["crash"] and not stationary:
        first, last = SC.D(trace[0]["date"]), SC.D(trace[-1]["date"])
        final = {p["site"]: dict((yy, n) for yy, n in p["done"]) for p in trace[-1]["planners"]}
        for st in static:
            for yy in st["sim_years"]:
                if yy not in st["dep_years"] or st["rs"] == 0:
                    continue
                if not (first <= date(yy, 1, 1) and date(yy, 12, 31) <= last):
                    continue
                got = final[st["site"]].get(yy, 0)
                if got != st["rs"]:
                    inp = {"case": case, "site": st["site"], "year": yy, "months": st["months"], "plan": st["plan"]}
                    if plan_hypothesis(st) and not case.get("_plan_bad_year"):
                        ctx.violate("C06:feasible:count-not-reached",
                                    f"site {st['site']}: {got} of {st['rs']} surveys in full year {yy} although every "
                                    f"request completed the same day and the plan dates are well-formed", inp)
                    else:
                        ctx.violate(SIG_GAP, f"site {st['site']}: months {st['months']} x {st['rs']}: plan "
                                    f"{st['plan']}, only {got} surveys in full year {yy}", inp)
                else:
                    ctx.count("feasible_years_reached")


# ------------------------------------------------------------------------------------------------
# generators
# ------------------------------------------------------------------------------------------------
def month_subset(rng):
    r = rng.random()
    if r < 0.35:
        return list(range(1, 13))
    if r < 0.7:  # contiguous season
        a = rng.randint(1, 12)
        b = rng.randint(a, 12)
        return list(range(a, b + 1))
    return sorted(rng.sample(range(1, 13), rng.randint(1, 11)))


def loop_case(rng, feasible=False, stationary=False):
    ns = rng.randint(1, 5)
    sy = rng.choice([2021, 2022, 2023, 2024])
    start = [sy, rng.choice([1, 1, 1, 3, 6, 12]), rng.choice([1, 1, 15, 30])]
    nd = rng.choice([370, 500, 740, 800, 1100]) if not stationary else rng.choice([60, 200, 400])
    if feasible:
        start = [sy, 1, 1]
        nd = rng.choice([366, 731, 1096])
    endd = SC.D(start) + timedelta(days=nd - 1)
    end = [endd.year, endd.month, endd.day]
    if rng.random() < 0.5 and not feasible:
        # the simulation end handed to the planners lies later than the days we step through
        e2 = endd + timedelta(days=rng.choice([0, 40, 400]))
        end = [e2.year, e2.month, e2.day]
    years_all = list(range(start[0], end[0] + 1))
    sites = []
    for i in range(ns):
        yrs = rng.choice([[], [], [], years_all[:1], years_all[:2], years_all[-1:], years_all,
                          [end[0] + 1, end[0] + 2],                    # disjoint from the simulated years
                          [start[0] - 1, start[0] + 1],                # partially overlapping
                          [start[0] - 2, start[0] - 1],                # entirely before
                          years_all + [end[0] + 1]])                   # reaching beyond the end
        sites.append({"id": i + 1, "freq": rng.choice([None, 1, 2, 3, 4, 6, 12, 24] if not feasible else [1, 2, 3, 4, 6, 12, 24]),
                      "deploy": rng.random() < 0.9, "months": month_subset(rng), "years": yrs,
                      "S": 60})
    case = {"kind": "stationary" if stationary else "routine", "method_class": "site", "start": start, "end": end,
            "ndays": nd, "crews": rng.choice([1, 1, 2, 3, 4, 0]) if not feasible else rng.choice([1, 2, 3]),
            "cap": rng.choice([1, 2, 5]) if not feasible else 6,
            "T": 0, "hours": 8, "sites": sites, "weather": []}
    forced = []
    if not feasible and not stationary:
        pu = rng.choice([0.0, 0.1, 0.3, 0.6])
        pp = rng.choice([0.0, 0.0, 0.2])
        for k in range(nd):
            for s in sites:
                r = rng.random()
                if r < pu:
                    forced.append([k, s["id"], "U"])
                elif r < pu + pp:
                    forced.append([k, s["id"], "P"])
    if stationary:
        case["weather"] = [1 if rng.random() < 0.7 else (0 if rng.random() < 0.5 else [rng.choice([0, 1]) for _ in sites])
                           for _ in range(nd)]
        case["forced"] = None
    else:
        case["forced"] = forced
    return H.decorate(rng, case)


def straddle_case(rng):
    """multi-day surveys that straddle New Year: start in Nov/Dec, survey time above a workday, few crews,
    the REAL deploy_crews (no forced outcomes), some weather-outs"""
    sy = rng.choice([2023, 2024, 2025])
    start = [sy, rng.choice([11, 11, 12]), rng.choice([1, 10, 20])]
    nd = rng.choice([75, 100, 130])
    ns = rng.randint(2, 6)
    hours = rng.choice([4, 8])
    S = rng.choice([hours * 60 + 30, hours * 90, hours * 150, 1200])
    freq = rng.choice([2, 4, 6, 12])
    months = list(range(1, 13)) if rng.random() < 0.8 else [1, 2, 11, 12]
    return {"kind": "routine", "method_class": rng.choice(["site", "component"]), "start": start,
            "end": [sy + 1, 12, 31], "ndays": nd, "crews": rng.choice([1, 1, 2]), "cap": rng.choice([None, 1, 2]),
            "T": rng.choice([0, 15, 30]), "hours": hours, "forced": None,
            "sites": [{"id": i + 1, "freq": freq, "deploy": True, "months": months, "years": [],
                       "S": S if rng.random() < 0.8 else 60} for i in range(ns)],
            "weather": [1 if rng.random() < 0.85 else 0 for _ in range(nd)]}


def leap_case(rng, outs=False):
    """stationary method over the complete leap year 2024, all months deployed; fully workable, or with a
    few weather-outs"""
    start = rng.choice([[2024, 1, 1], [2023, 12, 20], [2023, 11, 1]])
    nd = (date(2025, 1, 3) - SC.D(start)).days
    ns = rng.randint(1, 3)
    weather = [1] * nd
    if outs:
        for _ in range(rng.randint(1, 6)):
            weather[rng.randrange(nd)] = 0 if rng.random() < 0.5 else [rng.choice([0, 1]) for _ in range(ns)]
    return {"kind": "stationary", "method_class": "site", "start": start, "end": [2025, 12, 31], "ndays": nd,
            "crews": 1, "cap": None, "T": 0, "hours": 8, "forced": None, "weather": weather,
            "sites": [{"id": i + 1, "freq": None, "deploy": True, "months": list(range(1, 13)), "years": [],
                       "S": 60} for i in range(ns)]}


def short_period_cases():
    """periods of 1 and 2 days, Dec 31 / Jan 1, Feb 28 / 29 / Mar 1, periods not starting Jan 1 / not ending Dec 31,
    the same period shifted by exactly one year"""
    out = []
    for (start, end, nd) in [([2024, 12, 31], [2024, 12, 31], 1), ([2024, 1, 1], [2024, 1, 1], 1),
                             ([2024, 2, 29], [2024, 2, 29], 1), ([2024, 2, 28], [2024, 3, 1], 3),
                             ([2023, 2, 28], [2023, 3, 1], 2), ([2024, 12, 31], [2025, 1, 1], 2),
                             ([2023, 12, 31], [2024, 1, 1], 2), ([2024, 3, 15], [2025, 3, 14], 365),
                             ([2025, 3, 15], [2026, 3, 14], 365), ([2024, 3, 15], [2025, 3, 15], 366),
                             ([2023, 7, 1], [2024, 6, 30], 366)]:
        for kind in ("routine", "stationary"):
            for freq in (1, 12):
                out.append({"kind": kind, "method_class": "site", "start": start, "end": end, "ndays": nd,
                            "crews": 1, "cap": 2 if kind == "routine" else None, "T": 0, "hours": 8, "weather": [],
                            "forced": [] if kind == "routine" else None,
                            "sites": [{"id": i + 1, "freq": freq, "deploy": True, "months": list(range(1, 13)),
                                       "years": [], "S": 60} for i in range(3)]})
    return out


def year_list_cases():
    """deployment-year lists of every shape against the simulated years 2024..2026 (+ one run with a trailing
    partial year), for a mobile and a stationary method"""
    out = []
    shapes = [[], [2025], [2023, 2025], [2027, 2028], [2022, 2023], [2024, 2025, 2026, 2027], [2026, 2027]]
    for kind in ("routine", "stationary"):
        for yrs in shapes:
            for (start, end, nd) in (([2024, 12, 20], [2026, 12, 31], 40), ([2025, 6, 25], [2026, 12, 31], 30)):
                out.append({"kind": kind, "method_class": "site", "start": start, "end": end, "ndays": nd,
                            "crews": 2, "cap": 2 if kind == "routine" else None, "T": 0, "hours": 8, "weather": [],
                            "forced": [] if kind == "routine" else None,
                            "sites": [{"id": i + 1, "freq": 4, "deploy": True, "months": list(range(1, 13)),
                                       "years": list(yrs), "S": 60} for i in range(3)]})
        # trailing partial year named in the list (known KeyError class) and not named
        for yrs in ([2025, 2026], [2025]):
            out.append({"kind": kind, "method_class": "site", "start": [2025, 12, 28], "end": [2026, 3, 1], "ndays": 8,
                        "crews": 1, "cap": 2 if kind == "routine" else None, "T": 0, "hours": 8, "weather": [],
                        "forced": [] if kind == "routine" else None,
                        "sites": [{"id": 1, "freq": 12, "deploy": True, "months": list(range(1, 13)),
                                   "years": list(yrs), "S": 60}]})
    return out


def boundary_cases():
    """structured small cases around month / year ends (the finding classes and their neighbours)"""
    out = []
    for (start, nd, months, years, end) in [
        ([2024, 1, 29], 6, [1], [], [2024, 12, 31]),
        ([2024, 12, 29], 6, [12], [], [2025, 12, 31]),
        ([2024, 12, 29], 6, list(range(1, 13)), [2024], [2025, 12, 31]),
        ([2025, 12, 29], 6, list(range(1, 13)), [], [2026, 3, 1]),
        ([2025, 12, 29], 6, list(range(1, 13)), [2025, 2026], [2026, 3, 1]),
        ([2024, 2, 27], 6, [2], [], [2024, 12, 31]),
        ([2024, 6, 28], 6, [6, 8], [], [2024, 12, 31]),
    ]:
        for ns, cap in ((1, 1), (3, 1), (5, 1), (5, 2), (3, 5)):
            for freq in (1, 12):
                for miss in ((), ((1, 1),), ((2, 1), (2, 2), (3, 2))):
                    forced = [[k, ((j + k) % ns) + 1, "U"] for (k, j) in miss]
                    out.append({"kind": "routine", "method_class": "site", "start": start, "end": end, "ndays": nd,
                                "crews": 1, "cap": cap, "T": 0, "hours": 8, "weather": [],
                                "sites": [{"id": i + 1, "freq": freq, "deploy": True, "months": months,
                                           "years": years, "S": 60} for i in range(ns)],
                                "forced": forced})
    return out


# ------------------------------------------------------------------------------------------------
# plan hypothesis on the real generator
# ------------------------------------------------------------------------------------------------
def plan_stage(ctx):
    from harness.adapters import sched as A

    subsets = []
    for r in range(1, 13):
        for comb in itertools.combinations(range(1, 13), r):
            subsets.append(list(comb))
    if ctx.quick:
        ctx.rng.shuffle(subsets)
        subsets = subsets[:300]
        subsets.append([2, 5, 10])
    bad, good, err = [], 0, 0
    for months in subsets:
        for f in range(1, 25):
            try:
                pl = A.real_plan(list(months), f)
            except Exception as e:  # the generator itself fails
                err += 1
                ctx.violate("C06:plan:generator-raises:" + type(e).__name__,
                            f"_generate_evenly_spaced_dates({months}, {f}) raises {e!r}", {"months": months, "freq": f})
                continue
            md = [tuple(p[:2]) for p in pl]
            ok = (len(pl) == f and all(a < b for a, b in zip(md, md[1:])) and all(p[0] in months for p in pl)
                  and all(p[2] == 2023 for p in pl))
            ctx.evaluations += 1
            if len(pl) != f:
                ctx.violate("C06:plan:length", f"plan for {months} x {f} has {len(pl)} dates", {"months": months, "freq": f})
            if ok:
                good += 1
            else:
                bad.append((months, f, pl))
    # contiguous seasons (what the documentation's examples use): all 78 ranges x 24 frequencies, every run
    cont_bad = 0
    for a in range(1, 13):
        for b in range(a, 13):
            months = list(range(a, b + 1))
            for f in range(1, 25):
                pl = A.real_plan(months, f)
                md = [tuple(p[:2]) for p in pl]
                ctx.evaluations += 1
                if not (len(pl) == f and all(x < y for x, y in zip(md, md[1:])) and all(p[0] in months for p in pl)
                        and all(p[2] == 2023 for p in pl)):
                    cont_bad += 1
                    bad.append((months, f, pl))
    ctx.extra["plan_hypothesis"] = {"pairs": good + len(bad) - cont_bad, "holds": good, "fails": len(bad) - cont_bad,
                                    "raises": err, "month_subsets": len(subsets),
                                    "contiguous_ranges_pairs": 78 * 24, "contiguous_ranges_fail": cont_bad}
    ctx.count("plan_pairs_hypothesis_holds", good)
    ctx.count("plan_pairs_hypothesis_fails", len(bad))
    # where the hypothesis fails: does the real planner still reach the count in a full feasible year?
    ctx.rng.shuffle(bad)
    todo = bad[: ctx.pick(110, 1200)]
    if ctx.quick and not any(m == [2, 5, 10] and f == 4 for m, f, _ in todo):
        todo += [(m, f, p) for m, f, p in bad if m == [2, 5, 10] and f == 4]
    reached = short = 0
    cases = []
    for months, f, pl in todo:
        cases.append(feasible_year_case(months, f, bad_year=any(p[2] != 2023 for p in pl)))
    ok_sample = []
    rng = ctx.rng
    for _ in range(ctx.pick(30, 400)):
        months = month_subset(rng)
        cases.append(feasible_year_case(months, rng.randint(1, 24)))
    metas = run_loop_cases(ctx, cases, feasible=True, tag="plan")
    for (case, static, summ) in metas:
        st = static[0]
        got = dict((yy, n) for yy, n in summ["final_done"][1]).get(2024, 0) if not summ["crash"] else None
        if got == st["rs"]:
            reached += 1
        else:
            short += 1
    ctx.extra["plan_hypothesis"]["full_year_runs"] = len(cases)
    ctx.extra["plan_hypothesis"]["full_year_count_reached"] = reached
    ctx.extra["plan_hypothesis"]["full_year_count_short"] = short
    del ok_sample


def feasible_year_case(months, f, bad_year=False):
    c = {"kind": "routine", "method_class": "site", "start": [2024, 1, 1], "end": [2024, 12, 31], "ndays": 366,
         "crews": 1, "cap": 3, "T": 0, "hours": 8, "weather": [],
         "sites": [{"id": 1, "freq": f, "deploy": True, "months": list(months), "years": [], "S": 60}],
         "forced": []}
    if bad_year:
        c["_plan_bad_year"] = True
    return c


# ------------------------------------------------------------------------------------------------
# correspondence over day loops
# ------------------------------------------------------------------------------------------------
def run_loop_cases(ctx, cases, feasible=False, tag="loop", chunk=40):
    """implementation + model + oracle for every case, in chunks (traces of multi-year loops are large and
    are not kept); returns [(case, static, summary)] with summary = first issue day, dates with a completed
    survey, final counters per site, crash"""
    from harness.adapters import sched as A

    out = []
    for a in range(0, len(cases), chunk):
        batches, metas = [], []
        for case in cases[a:a + chunk]:
            r = H.drive(ctx, "C06", A.run_routine, case, forced=case.get("forced"))
            if r is None:
                continue
            static, trace = r
            req, exp = SC.lines_routine(case, static, trace)
            batches.append(req)
            metas.append((case, static, trace, req, exp))
        models = SC.run_model(batches)
        for (case, static, trace, req, exp), mod in zip(metas, models):
            ctx.evaluations += 1
            pub = {k: v for k, v in case.items()}
            ok = SC.compare(ctx, "planner:" + case["kind"], pub, req, exp, mod)
            ctx.count(f"corr:{tag}:{case['kind']}" + (":ok" if ok else ":DIFF"))
            ctx.traces += 1
            ctx.count("days", len(trace))
            try:
                oracle_trace(ctx, pub, static, trace, feasible=feasible or case.get("_feasible", False))
            except Exception as e:  # an implementation trace of a shape the oracle cannot read
                import traceback
                ctx.broke(f"C06: oracle could not evaluate an implementation trace ({type(e).__name__})",
                          str({k_: v for k_, v in pub.items() if k_ not in ("weather", "forced")})[:1200] + "\n"
                          + traceback.format_exc()[-1200:])
                continue
            k = nontrivial_key(case, static, trace)
            if k is not None:
                ctx.nontrivial.add(k)
            # hypothesis hit rates of the partial theorems
            yrs = {r["date"][0] for r in trace}
            dep = [st for st in static if st["rs"]]
            ctx.count("hyp:static_years_cases_total")
            if all(yy in st["dep_years"] and yy in st["sim_years"] for st in dep for yy in yrs):
                ctx.count("hyp:static_years_cases_hold")
            ok_c = True
            for r in trace:
                if r["crash"]:
                    ok_c = False
                    break
                for o in r["outcomes"]:
                    if o[1] == "C" and required_of(next(st for st in static if st["site"] == o[0]), r["date"][0]) <= 0 \
                            and case["kind"] != "stationary":
                        ok_c = False
            ctx.count("hyp:completes_ok_cases_total")
            if ok_c:
                ctx.count("hyp:completes_ok_cases_hold")
            ctx.count("hyp:plan_hypothesis_sites", sum(1 for st in static if st["rs"] and plan_hypothesis(st)))
            ctx.count("hyp:planner_sites", sum(1 for st in static if st["rs"]))
            crash = trace[-1]["crash"] if trace else None
            last = trace[-1] if (trace and not crash) else (trace[-2] if len(trace) > 1 else None)
            out.append((case, static, {
                "first_issue": next((r["date"] for r in trace if r.get("issued")), None),
                "complete_dates": [r["date"] for r in trace if any(o[1] == "C" for o in r.get("outcomes") or [])][:50],
                "final_done": None if last is None else {p["site"]: p["done"] for p in last["planners"]},
                "crash": crash}))
        del batches, metas, models
    return out


def nontrivial_key(case, static, trace):
    """non-trivial: at least one request was issued; distinct by kind, #sites, capacity, the set of
    (frequency, #months, contiguous?, explicit years?) of the sites, whether requests were carried over a
    month / year end, crash, years simulated"""
    if not any(rec.get("issued") for rec in trace):
        return None
    carried_m = carried_y = False
    last_issue = {}
    for rec in trace:
        if rec["crash"]:
            break
        for i in rec["issued"]:
            last_issue[i] = rec["date"]
        for o in rec["outcomes"]:
            if o[1] in "CP" and o[0] in last_issue:
                a = last_issue[o[0]]
                carried_m |= a[1] != rec["date"][1]
                carried_y |= a[0] != rec["date"][0]
    shape = tuple(sorted((st["rs"], len(st["months"]),
                          st["months"] == list(range(st["months"][0], st["months"][-1] + 1)) if st["months"] else True,
                          len(st["dep_years"])) for st in static))
    return (case["kind"], len(static), case.get("_cap_used"), shape[:4], carried_m, carried_y,
            bool(trace[-1]["crash"]), len({r["date"][0] for r in trace}))


# ------------------------------------------------------------------------------------------------
# witnesses of the Lean counterexamples, replayed on the real classes
# ------------------------------------------------------------------------------------------------
def witnesses(ctx):
    from harness.adapters import sched as A

    site = lambda i, f, months, years: {"id": i, "freq": f, "deploy": True, "months": months, "years": years, "S": 60}  # noqa: E731
    # C06_calendar_counterexample: Jan 31 / Feb 1, two sites, one survey a day
    w1 = {"kind": "routine", "method_class": "site", "start": [2024, 1, 31], "end": [2024, 12, 31], "ndays": 2,
          "crews": 1, "cap": 1, "T": 0, "hours": 8, "weather": [], "forced": [],
          "sites": [site(1, 1, [1], []), site(2, 1, [1], [])]}
    # C06_count_counterexample: deployment year 2024 only, Dec 31 -> Jan 1
    w2 = {"kind": "routine", "method_class": "site", "start": [2024, 12, 31], "end": [2025, 12, 31], "ndays": 2,
          "crews": 1, "cap": 1, "T": 0, "hours": 8, "weather": [], "forced": [],
          "sites": [site(1, 1, [1, 12], [2024]), site(2, 1, [1, 12], [2024])]}
    # DESIGN.md 5.6: January only, five sites, one survey per day from Jan 29 -> Feb 1 and Feb 2
    w3 = {"kind": "routine", "method_class": "site", "start": [2024, 1, 29], "end": [2024, 12, 31], "ndays": 6,
          "crews": 1, "cap": 1, "T": 0, "hours": 8, "weather": [], "forced": [],
          "sites": [site(i, 1, [1], []) for i in range(1, 6)]}
    # KeyError: trailing partial year is not a planner year; a survey carried over New Year completes in it
    w4 = {"kind": "routine", "method_class": "site", "start": [2025, 12, 30], "end": [2026, 3, 1], "ndays": 4,
          "crews": 1, "cap": 1, "T": 0, "hours": 8, "weather": [], "forced": [[1, 2, "U"]],
          "sites": [site(1, 12, list(range(1, 13)), []), site(2, 12, list(range(1, 13)), [])]}
    # KeyError: deployment years name the trailing partial year
    w5 = {"kind": "routine", "method_class": "site", "start": [2025, 12, 31], "end": [2026, 3, 1], "ndays": 3,
          "crews": 1, "cap": 1, "T": 0, "hours": 8, "weather": [], "forced": [],
          "sites": [site(1, 12, list(range(1, 13)), [2025, 2026])]}
    metas = run_loop_cases(ctx, [w1, w2, w3, w4, w5], tag="witness")
    dates3 = metas[2][2]["complete_dates"]
    ctx.extra["witness_F12_survey_dates"] = dates3
    # C06_feasible_counterexample: the plan literal of the Lean witness is what the real generator returns
    lit = [[2, 1], [2, 23], [5, 17], [11, 8]]
    real = [p[:2] for p in A.real_plan([2, 5, 10], 4)]
    if real != lit:
        ctx.broke("C06_feasible_counterexample: plan literal",
                  f"Lean witness plan {lit} != real _generate_evenly_spaced_dates([2,5,10],4) = {real}")
    w6 = feasible_year_case([2, 5, 10], 4)
    w6["end"] = [2025, 12, 31]
    w6["ndays"] = 731
    m6 = run_loop_cases(ctx, [w6], feasible=True, tag="witness")
    f15 = m6[0][2]["final_done"][1] if not m6[0][2]["crash"] else None
    ctx.extra["witness_F15_done_per_year"] = f15
    ctx.sample({"witness": "F12 January-only, five sites, one survey a day", "survey_dates": dates3})
    ctx.sample({"witness": "F15 months [2,5,10] x 4", "plan": real, "done_per_year": f15})


# ------------------------------------------------------------------------------------------------
def run(ctx):
    ctx.rule = ("cases = multi-year day loops (1-5 sites; frequencies None/1..24; month lists full / season / gapped; "
                "deployment-year lists; start dates; capacity; per-request outcome completed / in progress / "
                "unattended as input) on the real planners/schedules, stationary loops with weather masks through the "
                "real deploy_crews, structured month-end / year-end cases, feasible full-year runs; plus one evaluation "
                "per (month subset, frequency) of the real plan generator; non-trivial = a request was issued; distinct "
                "by (kind, sizes, frequency/month/year shape, carried over month / year end, crash, years)")
    core.lean_stage(ctx, MODULE, FILE, drivers=["drv_sched"])
    from harness.props import _tie
    _tie.planner_tie(ctx)  # layer 3: queue_site_for_survey / add_to_surveys_done, translated from the current source, are guardRoutine / guardStationary / finish
    _tie.estimate_tie(ctx)  # layer 3: crews of a method and the daily capacity estimate (ceil), translated over Q
    rng = ctx.rng
    witnesses(ctx)
    run_loop_cases(ctx, boundary_cases(), tag="boundary")
    run_loop_cases(ctx, year_list_cases(), tag="year-lists")
    run_loop_cases(ctx, short_period_cases(), tag="short-periods")
    # hardening stages (audit/LESSONS.md 1): shared-state table, same-process history, shared input
    table_ok = H.shared_state_table(ctx, "C06")

    def small(r):
        c = loop_case(r)
        c["ndays"] = min(c["ndays"], 90)
        c["forced"] = [f for f in (c.get("forced") or []) if f[0] < 90]
        return c

    H.history_stage(ctx, "C06", H.colliding_pairs(rng, small, ctx.pick(10, 100) * (1 if table_ok else 6)))
    H.shared_input_stage(ctx, "C06", [small(rng) for _ in range(ctx.pick(20, 150))]
                         + [loop_case(rng, stationary=True) for _ in range(ctx.pick(5, 50))])
    cases = [loop_case(rng) for _ in range(ctx.pick(28, 300))]
    cases += [loop_case(rng, stationary=True) for _ in range(ctx.pick(30, 300))]
    metas = run_loop_cases(ctx, cases)
    cases = [straddle_case(rng) for _ in range(ctx.pick(30, 400))]
    cases += [leap_case(rng) for _ in range(ctx.pick(3, 25))] + [leap_case(rng, outs=True) for _ in range(ctx.pick(3, 25))]
    # the steady state after a New-Year straddle: 6 sites of 1200 minutes, one crew, 4 surveys a year, Nov 1 start
    cases.append({"kind": "routine", "method_class": "site", "start": [2025, 11, 1], "end": [2026, 12, 31], "ndays": 426,
                  "crews": 1, "cap": None, "T": 0, "hours": 8, "forced": None, "weather": [],
                  "sites": [{"id": i + 1, "freq": 4, "deploy": True, "months": list(range(1, 13)), "years": [],
                             "S": 1200} for i in range(6)]})
    run_loop_cases(ctx, cases, tag="newyear-leap")
    feas = [loop_case(rng, feasible=True) for _ in range(ctx.pick(18, 150))]
    run_loop_cases(ctx, feas, feasible=True, tag="feasible")
    plan_stage(ctx)
    for (case, static, summ) in metas[:2]:
        ctx.sample({"case": {k: (v if k != "forced" else (v or [])[:6]) for k, v in case.items()},
                    "first_issue_day": summ["first_issue"], "final_done": summ["final_done"]})
    wholerun_oracle(ctx)
    hp, hs = ctx.counts.get("hyp:plan_hypothesis_sites", 0), ctx.counts.get("hyp:planner_sites", 0)
    g = ctx.counts.get
    ctx.extra["hypothesis_hit_rate"] = {
        "plan_hypothesis_of_all_done_when_feasible (planners)": [hp, hs],
        "StaticYears of done_le_required_static (histories)": [g("hyp:static_years_cases_hold", 0), g("hyp:static_years_cases_total", 0)],
        "CompletesOK of done_le_required_partial (histories)": [g("hyp:completes_ok_cases_hold", 0), g("hyp:completes_ok_cases_total", 0)],
    }
    ctx.assumptions.append("dates of the simulated days and the evenly spaced plan dates are inputs of the model "
                           "(taken from datetime.date / the real generator on every run)")


def wholerun_oracle(ctx):
    path = os.path.join(core.VERIF, "harness", "wholerun.py")
    if not os.path.exists(path):
        ctx.note("whole-run oracle skipped: harness/wholerun.py absent")
        return
    try:
        from harness.props import _sched_wholerun as W
    except ImportError:
        ctx.note("whole-run oracle skipped: harness/props/_sched_wholerun.py absent")
        return
    W.run_c06(ctx)


def replay(ctx, data):
    from harness.adapters import sched as A

    inp = data.get("input", {})
    if inp.get("history"):
        H.history_stage(ctx, "C06", [(inp["case"], inp["earlier_case"])])
        for v in ctx.violations:
            print("oracle:", v["signature"], "-", v["what"])
        return 1 if ctx.violations else 0
    if inp.get("wholerun") or (inp.get("case") or {}).get("wholerun"):
        from harness.props import _sched_wholerun as W

        return W.replay_c06(ctx, inp)
    if "case" not in inp:
        if "months" in inp:
            print("real plan:", A.real_plan(inp["months"], inp["freq"]))
            return 1
        print("replay: broken obligation / correspondence:", data.get("broken_obligations"),
              data.get("correspondence_disagreements"))
        return 1
    case = inp["case"]
    static, trace = A.run_routine(case, forced=case.get("forced"))
    oracle_trace(ctx, case, static, trace, feasible=bool(inp.get("plan")))
    for rec in trace[: 40]:
        print(rec["date"], "issued", rec.get("issued"), "plan", rec.get("plan"), "outcomes",
              [o[:2] for o in rec.get("outcomes") or []], "crash", rec["crash"])
    if trace and not trace[-1]["crash"]:
        print("final counters:", [(p["site"], p["done"]) for p in trace[-1]["planners"]])
    for v in ctx.violations:
        print("oracle:", v["signature"], "-", v["what"])
    return 1 if ctx.violations else 0
