"""Whole-simulation stage of C06 / C07: the REAL simulator is run on generated configurations
(harness/wholerun.py); the wrapper events of every method's schedule ("sched", "request", "survey",
"deploy", "sstate") are turned into the same per-day records the component adapter produces, then
  * routine and stationary schedules: replayed through drv_sched (trace conformance, crew outcomes
    read from the "survey" events are the model's inputs) and checked by the direct oracles of
    c06.py / c07.py;
  * follow-up schedules: direct oracle (no site twice in a plan, every planned request completed once
    or back in the queue once, flags = queue, class 1 <-> survey in progress).
"""
from __future__ import annotations

import concurrent.futures
import random
from datetime import date, timedelta

from harness.props import _sched_common as SC

KIND = {"MobileSchedule": "routine", "GenericSchedule": "routine", "StationarySchedule": "stationary",
        "FollowUpMobileSchedule": "followup"}


def _mn(x):
    """a minute value exactly (never truncated)"""
    from fractions import Fraction

    f = Fraction(x)
    return int(f) if f.denominator == 1 else float(f)


def _num(x):
    return int(x) if float(x).is_integer() else x


def _queue(q):
    return [[int(c), _num(r), int(s)] for c, r, s in q]


def deployed_in_files(cfg, m, site_id, site_type):
    """whether method `m` is deployed at the site according to the INPUT FILES: the sites file column
    `<m>_site_deployment` where it has a value, else the same column of the site type file, else deployed"""
    col = f"{m}_site_deployment"
    sv = (cfg.get("site_extra_cols") or {}).get(col) or {}
    v = sv.get(str(site_id), sv.get(site_id, ""))
    if str(v).upper() in ("TRUE", "FALSE"):
        return str(v).upper() == "TRUE"
    tv = ((cfg.get("site_type_extra_cols") or {}).get(col) or {}).get(site_type, "")
    if str(tv).upper() in ("TRUE", "FALSE"):
        return str(tv).upper() == "TRUE"
    return True


def configured_sites(cfg, m, kind, st):
    """the planners' parameters according to the run's own CONFIGURATION (method parameter file + input
    files), never according to the Site objects / planners the simulator built"""
    mcfg = (cfg.get("methods") or {}).get(m)
    types = {int(s_["id"]): s_.get("type") for s_ in cfg.get("sites", [])}
    known = {f"{m}_site_deployment"}
    foreign = [c for c in list(cfg.get("site_extra_cols") or {}) + list(cfg.get("site_type_extra_cols") or {})
               if c.startswith(m + "_") and c not in known]
    out = []
    for x in st:
        if mcfg is None or foreign or kind == "followup":
            # per-site overrides this stage does not interpret: fall back to what the planner holds
            out.append({"id": x["site"], "freq": (x["rs"] if x["rs"] else None), "deploy": x["rs"] > 0,
                        "months": x["months"], "years": x["dep_years"], "S": x["S"]})
            continue
        dep = deployed_in_files(cfg, m, x["site"], types.get(x["site"]))
        out.append({"id": x["site"], "freq": None if kind == "stationary" else mcfg.get("surveys_per_year"),
                    "deploy": dep, "months": list(mcfg.get("months", x["months"])),
                    "years": list(mcfg.get("years") or []),
                    "S": 0 if kind == "stationary" else mcfg.get("survey_time", x["S"]), "S_planner": x["S"]})
    return out


def configured_crews(cfg, m):
    """(crew_count as configured, LDAR-Sim's documented year-round estimate) for a mobile routine method, from the
    method parameters only: ceil(#sites / (sites per crew-day x days between two surveys of a site)); a follow-up
    method with crew_count 0 gets 1 crew; None where the leaf is not interpreted (per-site survey times / frequencies)"""
    import math

    mc = cfg["methods"][m]
    if mc.get("deployment_type") != "mobile":
        return None, None
    want = mc.get("crew_count", 0)
    if mc.get("is_follow_up"):
        return want, 1
    foreign = [c for c in list(cfg.get("site_extra_cols") or {}) + list(cfg.get("site_type_extra_cols") or {})
               if c.startswith(m + "_") and c != f"{m}_site_deployment"]
    if foreign:
        return want, None
    tb = mc.get("t_bw_sites", [0])
    avg_t = sum(tb) / len(tb)
    per_day = (mc.get("max_workday", 24) * 60 - avg_t) / (mc["survey_time"] + avg_t)
    if per_day <= 0:
        return want, None          # no survey fits into a workday: the documented estimate is undefined
    return want, math.ceil(len(cfg["sites"]) / (per_day * (365 / mc["surveys_per_year"])))


def build(cfg, events):
    """events of one (program, simulation) -> {method: (case, static, trace, extra)}"""
    try:
        from harness.props import _crew_wholerun as CW
        workable = CW.survey_workable(events, cfg)   # envelope + switch from the configuration, cube values from "wx"
    except Exception:
        workable = None
    start = date(*cfg["start"])
    out = {}
    cur = {}
    for e in events:
        tag = e[0]
        if tag == "sched":
            _, m, cls, crews, cap, static = e
            st = [{"site": int(s[0]), "rs": s[1], "months": s[2], "dep_years": s[3], "sim_years": s[4],
                   "plan": s[5], "S": s[6] if KIND.get(cls) != "stationary" else 0} for s in static]
            kind = KIND.get(cls, "routine")
            case = {"kind": kind, "method_class": "wholerun", "start": cfg["start"], "end": cfg["end"],
                    "crews": crews, "cap": cap if kind != "stationary" else len(st), "_cap_used": cap,
                    "T": None, "hours": None, "ndays": 0, "weather": [],
                    "sites": configured_sites(cfg, m, kind, st)}
            if kind == "stationary":
                case["_cap_used"] = len(st)
            dl = cfg.get("daylight")
            if dl is not None and not float(dl * 60).is_integer():
                case["scale"] = 8          # minutes are multiples of 1/8 (daylight hours are dyadic)
            out[m] = {"case": case, "static": st, "trace": [], "prev_rep": {x["site"]: None for x in st},
                      "fu": []}
        elif tag == "request":
            _, d, m, issued, q_after_take, plan = e[:6]
            q0, puts = (e[6], e[7]) if len(e) >= 8 else (None, None)
            if m in cur and m in out and cur[m]["plan"]:
                # the previous work plan of this method never reached schedule.update: its requests were taken
                # from the queue and neither counted nor put back
                out[m].setdefault("no_update", []).append([cur[m]["day"], cur[m]["plan"]])
            dt = start + timedelta(days=d)
            cur[m] = {"date": [dt.year, dt.month, dt.day], "day": d, "crash": None,
                      "issued": [int(x) for x in issued], "queue_after_take": _queue(q_after_take),
                      "plan": [int(x) for x in plan], "surveys": {},
                      "n_taken": len(plan) if (q0 is None or puts is None) else q0 + puts - len(q_after_take),
                      "n_puts": puts,
                      "reports": sorted(int(x) for x in plan), "heap_ok": True}
        elif tag == "survey":
            d, m, site = e[1], e[2], int(e[3])
            if m in cur and cur[m]["day"] == d:
                cur[m]["surveys"].setdefault(site, []).append(e)
        elif tag == "sstate":
            _, d, m, q, flags, pls = e[:6]
            rec = cur.pop(m, None)
            if rec is None or m not in out:
                continue
            if len(e) >= 7 and e[6] is not None:
                rec["reports"] = sorted(int(x) for x in e[6])
            info = out[m]
            rec["queue"] = _queue(q)
            kind = info["case"]["kind"]
            outs = []
            for i in rec["plan"]:
                evs = rec["surveys"].get(i, [])
                if not evs:
                    prev = info["prev_rep"].get(i)
                    outs.append([i, "U", 0, 0 if prev is None else prev[1], 0])
                    continue
                ev = evs[-1]
                p0, p1, complete, inprog, visited = _mn(ev[9]), _mn(ev[10]), ev[11], ev[12], ev[13]
                if complete:
                    stt = "C"
                elif inprog and p1 != p0:
                    stt = "P"
                else:
                    stt = "U"
                wk = workable.get(id(ev)) if workable is not None else None
                outs.append([i, stt, _mn(p1 - p0), p1, _mn(p1 - p0), bool(visited) if wk is None else bool(wk), len(evs),
                             "code" if wk is None else "cfg"])
            rec["outcomes"] = outs
            # completed surveys as the survey_site wrapper saw them (site, date of the call)
            rec["completed_reports"] = [[o[0], list(rec["date"])] for o in outs if o[1] == "C"]
            if kind == "followup":
                rec["flags"] = sorted(int(x) for x in flags)
                rec["planners"] = sorted([int(s), r] for s, r in pls)
                info["prev_rep"] = {int(s): r for s, r in pls}
            else:
                rec["planners"] = [{"site": int(s), "queued": qd, "done": dn, "report": r} for s, qd, dn, r in pls]
                info["prev_rep"] = {int(s): r for s, qd, dn, r in pls}
            del rec["surveys"]
            info["trace"].append(rec)
            info["case"]["ndays"] = len(info["trace"])
    return out


# ------------------------------------------------------------------------------------------------
def followup_oracle(ctx, prop, cfgkey, m, info):
    for k, rec in enumerate(info["trace"]):
        inp = {"wholerun": cfgkey, "method": m, "day": rec["day"], "plan": rec["plan"], "queue": rec["queue"]}
        plan = rec["plan"]
        after = [e[2] for e in rec["queue"]]
        outs = {o[0]: o for o in rec["outcomes"]}
        if len(set(plan)) != len(plan):
            ctx.violate(prop + ":wholerun:site-twice-in-plan", f"follow-up plan {plan}", inp)
        if sorted(rec["reports"]) != sorted(plan):
            ctx.violate(prop + ":wholerun:report-missing", f"follow-up plan {plan}, reports of {rec['reports']}", inp)
        if rec["n_taken"] != len(plan):
            ctx.violate(prop + ":wholerun:popped-request-not-in-work-plan",
                        f"{rec['n_taken']} follow-up requests popped, work plan holds {len(plan)}", inp)
        if len(set(after)) != len(after):
            ctx.violate(prop + ":wholerun:duplicate-outstanding", f"follow-up queue {after}", inp)
        for i in plan:
            done = outs[i][1] == "C"
            if done == (i in after) and not (done and i in rec.get("issued", [])):
                ctx.violate(prop + ":wholerun:lost-or-duplicated-request",
                            f"follow-up site {i}: completed={done}, in queue after the day={i in after}", inp)
        if rec["flags"] != sorted(after):
            ctx.violate(prop + ":wholerun:queued-flag", f"flags {rec['flags']} != queue sites {sorted(after)}", inp)
        reps = {p[0]: p[1] for p in rec["planners"]}
        for cls, rate, i in rec["queue"]:
            r = reps.get(i)
            if (cls == 1) != (r is not None and r[0] == 1):
                ctx.violate(prop + ":wholerun:class-state", f"follow-up site {i}: class {cls}, report {r}", inp)
            # "interrupted" from the history (minutes booked on a report that is not complete), not from the flag
            if (cls == 1) != (r is not None and r[1] > 0):
                ctx.violate(prop + ":wholerun:interrupted-survey-not-in-class-1",
                            f"follow-up site {i}: {0 if r is None else r[1]} minutes surveyed, class {cls}", inp)
        ctx.count("wholerun_followup_days")


def stationary_workable_oracle(ctx, cfgkey, m, info):
    for rec in info["trace"]:
        for o in rec["outcomes"]:
            if len(o) > 5:
                ctx.count("stationary-workable-from-" + (o[7] if len(o) > 7 else "code"))
                if (o[1] == "C") != o[5]:
                    ctx.violate("C06:wholerun:stationary-observed-iff-workable",
                                f"site {o[0]} day {rec['day']}: completed={o[1] == 'C'} workable={o[5]}",
                                {"wholerun": cfgkey, "method": m, "day": rec["day"]})
                if o[6] != 1:
                    ctx.violate("C06:wholerun:stationary-observed-twice", f"site {o[0]}: {o[6]} survey calls on one day",
                                {"wholerun": cfgkey, "method": m, "day": rec["day"]})


def feasible_years_oracle(ctx, cfg, m, case, static, trace, tag):
    """C06 "equals the required number in every full deployment year when crews are sufficient and weather permits",
    with feasibility stated from the CONFIGURATION and a generous margin: weather and daylight not considered, the
    plan dates well-formed, and the burst of requests of one plan date can be worked off by the configured crews in
    a third of the time to the next plan date (and to Dec 31)"""
    import math
    from harness.props import c06

    mc = cfg["methods"][m]
    if case["kind"] != "routine" or mc.get("is_follow_up"):
        return
    why = None
    if cfg.get("consider_weather"):
        why = "weather-considered"
    elif mc.get("consider_daylight"):
        why = "daylight-considered"
    crews = case["crews"] if case["crews"] else case.get("_crews_estimate")
    W, S = mc.get("max_workday", 24) * 60, mc.get("survey_time")
    T = max(mc.get("t_bw_sites", [0]))
    dep = [cs for cs in case["sites"] if cs.get("deploy") and cs.get("freq")]
    if why is None and (not crews or S is None or W <= 2 * T or not dep or any(cs["S"] != S for cs in dep)):
        why = "crews-or-times-not-derivable"
    if why is None:
        exp = c06.expected_static(_Quiet(), case, static)
        st0 = next(e for e in exp if e["site"] == dep[0]["id"])
        if not c06.plan_hypothesis(st0) or len(st0["plan"]) != st0["rs"]:
            why = "plan-dates-outside-the-deployment-months(F15)"
    if why is not None:
        ctx.count("skip:feasible-clause:" + why)
        return
    visits = 1 if S + 2 * T <= W else math.ceil(S / (W - 2 * T))
    burst = math.ceil(len(dep) * (S + 2 * T * visits) / (crews * W)) + visits
    first, last = date(*cfg["start"]), date(*cfg["end"])
    done = {}
    for rec in trace:
        for i, cd in rec.get("completed_reports") or []:
            done[(i, cd[0])] = done.get((i, cd[0]), 0) + 1
    for y in st0["dep_years"]:
        if not (first <= date(y, 1, 1) and date(y, 12, 31) <= last):
            continue
        pds = [date(y, p[0], p[1]) for p in st0["plan"]] + [date(y, 12, 31)]
        gap = min((b - a).days for a, b in zip(pds, pds[1:]))
        if 3 * burst + 2 > gap:
            ctx.count("skip:feasible-clause:margin-too-small")
            continue
        ctx.count("feasible_years_checked_from_configuration")
        for cs in dep:
            got = done.get((cs["id"], y), 0)
            if got != cs["freq"]:
                ctx.violate("C06:wholerun:feasible:count-not-reached",
                            f"method {m} site {cs['id']}: {got} of {cs['freq']} surveys completed in full deployment year "
                            f"{y}; {crews} crews x {W} min/day, {len(dep)} sites x {S}+2x{T} min, plan {st0['plan']}, no "
                            f"weather (a burst needs about {burst} days, the tightest gap is {gap})",
                            {"wholerun": tag, "case": {"wholerun": tag}})
                return


class _Quiet:
    """expected_static is used for its return value only here"""

    def violate(self, *a, **k):
        pass


def analyse(ctx, prop, cfg, res, oracle):
    """conformance + oracles for every schedule of every (program, simulation)"""
    key = {"seed_cfg": cfg.get("_verif_seed"), "ndays": res.ndays}
    if res.rc != 0 and cfg.get("wide_applied") and ("_estimate_method_crews_required" in res.log) and \
            ("OverflowError" in res.log or "ZeroDivisionError" in res.log):
        # a wide configuration in which no survey fits into a workday: LDAR-Sim's crew estimate divides by zero while
        # the methods are built (before any schedule exists).  Not a statement of C06 / C07; counted, never silent.
        ctx.count("skip:wide-run-crashed-in-crew-estimate(no survey fits a workday)")
        ctx.note(f"wide configuration {key} {[(w['path'][1:], w['value']) for w in cfg['wide_applied']]} crashed in "
                 f"Method._estimate_method_crews_required (division by zero); skipped")
        return
    if res.rc != 0:
        # never a silent skip: a crashing whole run is a broken obligation (the component stages go on searching)
        ctx.broke(f"{prop}: whole-run configuration {key} crashed (rc={res.rc})", res.log[-1500:])
        ctx.count("wholerun_rc_nonzero")
        if not res.trace:
            return
        # continued search for a failing input: the events recorded up to the crash are analysed like any trace
    batches, metas = [], []
    for tr in res.trace:
        per = build(cfg, tr["events"])
        for m, info in per.items():
            case, static, trace = info["case"], info["static"], info["trace"]
            tag = {"wholerun": {"cfg_seed": cfg.get("_verif_seed"), "program": tr["prog"], "sim": tr["sim"], "method": m,
                                "two_run": cfg.get("_two_run"), "wide": cfg.get("_verif_wide"),
                                "history": cfg.get("_history")}}
            case = dict(case, **tag)
            mcfg = (cfg.get("methods") or {}).get(m, {})
            # the schedule must be built for exactly the sites of THIS run's configuration (all of them are
            # sampled: site_samples = number of sites in the sites file)
            want_sites = sorted(int(s_["id"]) for s_ in cfg.get("sites", []))
            got_sites = sorted(st["site"] for st in static)
            if want_sites and cfg.get("n_sites") == len(want_sites) and got_sites != want_sites:
                ctx.violate(prop + ":wholerun:schedule-built-for-other-sites-than-configured",
                            f"method {m}: the run is configured with sites {want_sites}, the schedule holds planners "
                            f"for {got_sites}" + (f" (earlier run in this folder differed in {cfg['_history']['kind']})"
                                                  if cfg.get("_history") else ""),
                            {"wholerun": tag["wholerun"], "case": {"wholerun": tag["wholerun"]}})
            for wa in cfg.get("wide_applied") or []:
                if wa["path"][0] == "m" and wa["path"][1] == m:
                    ctx.count("wide:" + wa["tag"] + ":" + wa["path"][-1] + "=" + str(wa["value"])[:24])
            if mcfg and mcfg.get("deployment_type") == "mobile":
                used = case["crews"]
                want, est = configured_crews(cfg, m)
                expect = want if want else est
                if expect is None:
                    ctx.count("skip:crews-not-derivable-from-configuration(per-site overrides)")
                else:
                    ctx.count("crews-from-" + ("configuration" if want else "documented-estimate"))
                    case["_crews_used"], case["_crew_reports"], case["_crews_estimate"] = used, used, est
                    case["crews"] = want                      # the model and the oracle get the CONFIGURED crews
                    if not want:
                        case["_crews_estimate"] = est
                    if used != expect:
                        ctx.violate(prop + ":wholerun:deployed-crews-differ-from-configured",
                                    f"method {m}: crew_count {want} configured (documented estimate {est}), the schedule "
                                    f"was built with {used} crews",
                                    {"wholerun": tag["wholerun"], "case": {"wholerun": tag["wholerun"]}})
                # daily surveys per crew: documented ceil(workday / (survey + mean travel)), from the configuration
                if not mcfg.get("is_follow_up") and expect is not None and configured_crews(cfg, m)[1] is not None:
                    import math
                    tb = mcfg.get("t_bw_sites", [0])
                    cap_doc = math.ceil(mcfg.get("max_workday", 24) * 60 / (mcfg["survey_time"] + sum(tb) / len(tb)))
                    case["_cap_method"], case["_cap_documented"] = case["_cap_used"], cap_doc
                    if case["_cap_used"] != cap_doc:
                        ctx.violate(prop + ":wholerun:daily-surveys-per-crew-differ-from-documented",
                                    f"method {m}: max_workday {mcfg.get('max_workday')} h, survey_time {mcfg['survey_time']}, "
                                    f"time_between_sites {tb}: documented ceil = {cap_doc}, the schedule was built with "
                                    f"{case['_cap_used']} surveys per crew and day",
                                    {"wholerun": tag["wholerun"], "case": {"wholerun": tag["wholerun"]}})
                    case["cap"] = cap_doc                      # model and oracle use the documented capacity
                for cs in case["sites"]:
                    if "S_planner" in cs and cs["S_planner"] != cs["S"]:
                        ctx.count("skip:survey-time-of-site-differs-from-method-survey_time")
                        cs["S"] = cs["S_planner"]
            if prop == "C06" and mcfg:
                yrs = mcfg.get("years") or []
                for st in static:
                    exp = sorted(yrs) if yrs else sorted(st["sim_years"])
                    if sorted(st["dep_years"]) != exp:
                        ctx.violate("C06:wholerun:planner-deployment-years-differ-from-configuration",
                                    f"method {m} site {st['site']}: configured years {yrs}, simulated {st['sim_years']}, "
                                    f"planner holds {st['dep_years']}",
                                    {"wholerun": tag["wholerun"], "case": {"wholerun": tag["wholerun"]}})
                        break
            for (dday, dplan) in info.get("no_update", [])[:3]:
                ctx.violate(prop + ":wholerun:work-plan-never-reached-schedule-update",
                            f"method {m}: the requests {dplan} planned on day {dday} were taken from the queue but the "
                            f"schedule was not updated that day (neither completed nor put back)",
                            {"wholerun": tag["wholerun"], "case": {"wholerun": tag["wholerun"]}})
            if case["kind"] == "followup":
                followup_oracle(ctx, prop, tag["wholerun"], m, info)
                continue
            req, exp = SC.lines_routine(case, static, trace)
            batches.append(req)
            metas.append((case, static, trace, req, exp, m, info))
    models = SC.run_model(batches) if batches else []
    for (case, static, trace, req, exp, m, info), mod in zip(metas, models):
        ok = SC.compare(ctx, f"wholerun:{case['kind']}", case, req, exp, mod)
        ctx.count(f"corr:wholerun:{case['kind']}" + (":ok" if ok else ":DIFF"))
        ctx.traces += 1
        ctx.evaluations += 1
        ctx.count("wholerun_days", len(trace))
        try:
            oracle(ctx, case, static, trace)
        except Exception as e:
            import traceback
            ctx.broke(f"{prop}: oracle could not evaluate a whole-run trace ({type(e).__name__})",
                      str(case.get("wholerun")) + "\n" + traceback.format_exc()[-1200:])
            continue
        if case["kind"] == "stationary" and prop == "C06":
            stationary_workable_oracle(ctx, case["wholerun"], m, info)
        if prop == "C06":
            try:
                feasible_years_oracle(ctx, cfg, m, case, static, trace, case["wholerun"])
            except Exception as e:
                import traceback
                ctx.broke(f"C06: feasible-years clause could not be evaluated ({type(e).__name__})",
                          str(case.get("wholerun")) + "\n" + traceback.format_exc()[-1000:])
        if any(r["issued"] for r in trace):
            ctx.nontrivial.add(("wholerun", case["kind"], len(static), case["crews"], case["_cap_used"],
                                tuple(sorted({(s["rs"], len(s["months"])) for s in static})),
                                sum(1 for r in trace for o in r["outcomes"] if o[1] != "C") > 0))


WIDE_TAGS = ["years", "months", "freq", "crews", "workday", "weather", "followup", "delays", "sims"]


def make_cfg(seed, wide=None):
    """one whole-run configuration, reproducible from (seed, wide)"""
    from harness import wholerun as W

    rng = random.Random(seed)
    kw = {"wide": wide} if (wide and wide != "daylight") else {}
    cfg = W.make_config(rng, ndays=rng.choice([150, 250, 400, 500]), n_sites=rng.randint(4, 9), **kw)
    cfg["_verif_seed"], cfg["_verif_wide"] = seed, wide
    deploy_columns(rng, cfg)       # deployment flags through the real intake, from both input files
    if wide == "daylight":
        # fractional daylight hours (fractional minutes of a workday) with surveys that take more than one day
        cfg["daylight"] = rng.choice([7.625, 6.8125, 5.375])
        cfg["consider_weather"] = True      # small work plans + weather: days on which every planned site is blocked
        for m, mc in cfg["methods"].items():
            if mc.get("deployment_type") == "mobile" and mc.get("measurement_scale") == "component":
                mc["consider_daylight"] = True
                mc["survey_time"] = rng.choice([600, 900, 500])
        cfg["wide_applied"] = [{"tag": "daylight", "path": ["c", "daylight"], "value": cfg["daylight"]}]
    return cfg


def configs(ctx, n, wide=None):
    out = []
    for k in range(n):
        seed = ctx.rng.randrange(1 << 30)
        w = wide[k % len(wide)] if isinstance(wide, list) and wide and isinstance(wide[0], (list, bool)) else wide
        out.append(make_cfg(seed, w))
    return out


def _configs_old(ctx, n):
    from harness import wholerun as W

    out = []
    for _ in range(n):
        seed = ctx.rng.randrange(1 << 30)
        rng = random.Random(seed)
        cfg = W.make_config(rng, ndays=rng.choice([150, 250, 400, 500]), n_sites=rng.randint(4, 9))
        cfg["_verif_seed"] = seed
        deploy_columns(rng, cfg)       # deployment flags through the real intake, from both input files
        out.append(cfg)
    return out


def deploy_columns(rng, cfg):
    """`<method>_site_deployment` columns in BOTH the sites file and the site type file (TRUE / FALSE / blank)
    for every routine / stationary method of the configuration; at least one site stays deployed"""
    used = {m for p in cfg["programs"] for m in p["methods"]}
    sx, tx = dict(cfg.get("site_extra_cols") or {}), dict(cfg.get("site_type_extra_cols") or {})
    ids = [s_["id"] for s_ in cfg["sites"]]
    types = sorted({s_["type"] for s_ in cfg["sites"]})
    for m in sorted(used):
        if cfg["methods"][m].get("is_follow_up"):
            continue
        col = f"{m}_site_deployment"
        tvals = {t: rng.choice(["TRUE", "FALSE", "", "FALSE"]) for t in types}
        svals = {str(i): rng.choice(["", "", "", "TRUE", "FALSE"]) for i in ids}
        svals[str(rng.choice(ids))] = "TRUE"      # a site switched on against / without its type
        tx[col], sx[col] = tvals, svals
    cfg["site_extra_cols"], cfg["site_type_extra_cols"] = sx, tx
    return cfg


def two_run_cfgs(seed):
    """run 1 and run 2 of one input / generator folder: run 2 edits method parameters that propagate to the
    sites (surveys per year, deployment months, deployment years, site deployment) and keeps every label"""
    from harness import wholerun as W

    rng = random.Random(seed)
    cfg1 = W.make_config(rng, ndays=rng.choice([200, 300]), n_sites=rng.randint(4, 6))
    cfg1["_verif_seed"] = seed
    deploy_columns(rng, cfg1)
    import copy as _copy

    cfg2 = _copy.deepcopy(cfg1)
    for m, mc in cfg2["methods"].items():
        if mc.get("is_follow_up"):
            continue
        if "surveys_per_year" in mc:
            mc["surveys_per_year"] = rng.choice([x for x in (1, 2, 3, 4, 6, 12) if x != mc["surveys_per_year"]])
        if mc.get("deployment_type") == "mobile":
            mc["months"] = rng.choice([mm for mm in ([5, 6, 7, 8, 9], [1, 2, 3], list(range(1, 13)), [3, 4, 10, 11])
                                      if mm != mc["months"]])
            if rng.random() < 0.5:
                mc["years"] = [cfg2["start"][0]]
    if seed % 3 == 0:
        # variant: run 2 also edits the deployment columns of the input files (two of three histories leave
        # every input file untouched, so that only the method parameter files differ between the runs)
        deploy_columns(rng, cfg2)
    return cfg1, cfg2


def two_run_stage(ctx, prop, oracle, seeds):
    """LESSONS 1 / 5 on whole runs: a second simulation on the same input and generator folder with edited
    method parameters (same labels) must follow ITS OWN parameter files"""
    import shutil
    import tempfile
    from harness import wholerun as W

    for seed in seeds:
        cfg1, cfg2 = two_run_cfgs(seed)
        wd = tempfile.mkdtemp(prefix="ldarverif_two_")
        try:
            for k, cfg in ((1, cfg1), (2, cfg2)):
                cfg["_two_run"] = k
                res = W.run_config(cfg, workdir=wd, keep_inputs=(k == 2))
                analyse(ctx, prop, cfg, res, oracle)
                ctx.count(f"two_run_histories_run{k}")
        finally:
            shutil.rmtree(wd, ignore_errors=True)


HISTORY_KINDS = ["surveys-per-year", "months", "period-start", "period-end", "site-count"]


def history_cfgs(seed, kinds=None):
    """(cfg_prev, cfg, what_differs): the configuration the user asks for and what an EARLIER run in the same
    folder had (one defining leaf different, `harness.wholerun.prev_variant`), reproducible from the seed"""
    from harness import wholerun as W

    cfg = make_cfg(seed)
    kinds = kinds or HISTORY_KINDS
    for t in range(200):
        prev, kind = W.prev_variant(cfg, random.Random(seed * 131 + t))
        if kind in kinds:
            cfg["_history"] = {"seed": seed, "kinds": list(kinds), "kind": kind}
            return prev, cfg, kind
    return None, cfg, None


def history_stage(ctx, prop, oracle, jobs):
    """a property must hold for the run the user asked for WHATEVER was run in that folder before: `cfg_prev`
    is run first, then `cfg` in the same folder; conformance and all oracles are applied to the second run against
    `cfg` (its own parameter and input files)"""
    from harness import wholerun as W

    for (seed, kinds) in jobs:
        prev, cfg, kind = history_cfgs(seed, kinds)
        if prev is None:
            ctx.count("skip:history-no-variant-of-the-wanted-kind")
            continue
        res = W.run_after(prev, cfg)
        try:
            if getattr(res, "prev_rc", 0) != 0:
                ctx.count("history:first-run-stopped")
            analyse(ctx, prop, cfg, res, oracle)
            ctx.count("history:" + kind)
        finally:
            res.cleanup()


def history_jobs(ctx, n):
    """n histories with different `what_differs` (rotating through the kinds that reach the schedules)"""
    off = ctx.rng.randrange(len(HISTORY_KINDS))
    return [(ctx.rng.randrange(1 << 30), [HISTORY_KINDS[(off + k) % len(HISTORY_KINDS)]]) for k in range(n)]


def run_all(ctx, prop, oracle, cfgs=None):
    from harness import wholerun as W

    cfgs = cfgs if cfgs is not None else configs(ctx, ctx.pick(1, 10 if prop == "C07" else 8))   # quick: C07 runs two more in mode_stage, C06 a two-run history

    def one(cfg):
        return cfg, W.run_config(cfg)

    with concurrent.futures.ThreadPoolExecutor(max_workers=ctx.pick(3, 5)) as ex:
        results = list(ex.map(one, cfgs))
    for cfg, res in results:
        try:
            analyse(ctx, prop, cfg, res, oracle)
        finally:
            res.cleanup()
    ctx.count("wholerun_configs", len(cfgs))


def mode_stage(ctx, prop, oracle, n):
    """execution mode: the same generated scenario (inputs and generator folder reused) in debug mode and in a
    process pool with two simulations per program; the schedule event streams of every (program, simulation)
    must be identical, and the pool traces go through conformance + oracle as well"""
    import json
    import shutil
    import tempfile
    from harness import wholerun as W

    for _ in range(n):
        seed = ctx.rng.randrange(1 << 30)
        rng = random.Random(seed)
        cfg = W.make_config(rng, ndays=120 if ctx.quick else rng.choice([120, 200]),
                            n_sites=4 if ctx.quick else rng.randint(4, 7), n_sims=2)
        cfg["_verif_seed"] = seed
        wd = tempfile.mkdtemp(prefix="ldarverif_mode_")
        try:
            a = W.run_config(cfg, debug=True, workdir=wd)
            b = W.run_config(cfg, debug=False, processes=2, workdir=wd, keep_inputs=True)
            if a.rc != 0 or b.rc != 0:
                ctx.broke(f"{prop}: whole-run configuration crashed (debug rc={a.rc}, pool rc={b.rc})",
                          (a.log if a.rc else b.log)[-1500:])
                continue

            def key(tr):
                return {(t["prog"], t["sim"]): [e for e in t["events"] if e[0] in ("sched", "request", "sstate")]
                        for t in tr}

            ka, kb = key(a.trace), key(b.trace)
            for k in sorted(set(ka) | set(kb)):
                ctx.evaluations += 1
                ctx.count("mode_pairs_compared")
                if json.dumps(ka.get(k)) != json.dumps(kb.get(k)):
                    x, y = ka.get(k) or [], kb.get(k) or []
                    first = next((i for i, (u, v) in enumerate(zip(x, y)) if u != v), min(len(x), len(y)))
                    ctx.violate(prop + ":mode:schedule-differs-between-debug-and-pool",
                                f"program {k[0]} simulation {k[1]}: schedule events differ from event {first} on "
                                f"({str(x[first:first + 1])[:200]} vs {str(y[first:first + 1])[:200]})",
                                {"wholerun": {"cfg_seed": seed, "mode": True}, "case": {"wholerun": {"cfg_seed": seed}}})
            analyse(ctx, prop, cfg, b, oracle)
        finally:
            shutil.rmtree(wd, ignore_errors=True)


def wide_list(ctx):
    """the `wide` argument of the wide configurations of a tier: the tags that matter for the schedules, single
    tags and pairs of them, one all-tags run, one run with more than one batch of simulations (quick 2, thorough 10)"""
    if ctx.quick:
        return [WIDE_TAGS, True]
    return [WIDE_TAGS, True, ["crews", "workday"], ["years", "months", "freq"], ["weather", "followup"],
            ["crews"], ["workday"], ["freq", "months"], ["sims", "delays", "years"], ["sims-batch", "fractional"]]


def run_c07(ctx):
    from harness.props import c07

    orc = lambda c, case, static, trace: c07.oracle_trace(c, case, trace, static=static)  # noqa: E731
    wl = wide_list(ctx)
    cfgs = configs(ctx, ctx.pick(0, 8)) + configs(ctx, len(wl), wl) + configs(ctx, ctx.pick(1, 2), "daylight")
    ctx.count("wholerun_wide_configs", len(wl))
    jobs = history_jobs(ctx, ctx.pick(1, 2))
    with concurrent.futures.ThreadPoolExecutor(max_workers=2) as ex:
        f1 = ex.submit(run_all, ctx, "C07", orc, cfgs)
        f2 = ex.submit(history_stage, ctx, "C07", orc, jobs)
        f1.result()
        f2.result()
    mode_stage(ctx, "C07", orc, ctx.pick(1, 3))


def run_c06(ctx):
    from harness.props import c06

    orc = lambda c, case, static, trace: c06.oracle_trace(c, case, static, trace)  # noqa: E731
    wl = wide_list(ctx)
    # quick: the plain shape is covered by run 1 of the two-run history and by the second run of the generic history
    cfgs = configs(ctx, ctx.pick(0, 4)) + configs(ctx, len(wl), wl)       # drawn here: the seeds stay reproducible
    ctx.count("wholerun_wide_configs", len(wl))
    seeds = [ctx.rng.randrange(1 << 30) for _ in range(ctx.pick(1, 3))]
    seeds[0] = seeds[0] - seeds[0] % 3 + 1                               # the first history edits parameters only
    if len(seeds) > 1:
        seeds[1] = seeds[1] - seeds[1] % 3                               # the second one also the input files
    jobs = history_jobs(ctx, ctx.pick(1, 4))
    with concurrent.futures.ThreadPoolExecutor(max_workers=3) as ex:
        # the plain / wide configurations, the two-run histories (run 2 edits frequency / months / years / site
        # deployment under the same labels) and the generic histories (harness.wholerun.prev_variant: surveys per
        # year, months, period start, period end, site count) side by side; each is mostly a child process
        f1 = ex.submit(run_all, ctx, "C06", orc, cfgs)
        f2 = ex.submit(two_run_stage, ctx, "C06", orc, seeds)
        f3 = ex.submit(history_stage, ctx, "C06", orc, jobs)
        f1.result()
        f2.result()
        f3.result()
    if not ctx.quick:
        mode_stage(ctx, "C06", orc, 2)


def _replay(ctx, prop, inp):
    from harness import wholerun as W

    w = inp.get("wholerun") or inp.get("case", {}).get("wholerun")
    seed = w.get("cfg_seed", w.get("seed_cfg"))
    if w.get("history"):
        from harness.props import c06 as _c06h, c07 as _c07h
        orc = (lambda c, case, static, trace: _c07h.oracle_trace(c, case, trace, static=static)) if prop == "C07" else \
            (lambda c, case, static, trace: _c06h.oracle_trace(c, case, static, trace))
        history_stage(ctx, prop, orc, [(w["history"]["seed"], w["history"]["kinds"])])
        for v in ctx.violations:
            print("oracle:", v["signature"], "-", v["what"])
        return 1 if (ctx.violations or ctx.disagreements) else 0
    if w.get("two_run"):
        import shutil
        import tempfile
        from harness import wholerun as W
        from harness.props import c06 as _c06, c07 as _c07
        orc = (lambda c, case, static, trace: _c07.oracle_trace(c, case, trace, static=static)) if prop == "C07" else \
            (lambda c, case, static, trace: _c06.oracle_trace(c, case, static, trace))
        cfg1, cfg2 = two_run_cfgs(seed)
        wd = tempfile.mkdtemp(prefix="ldarverif_two_")
        try:
            for k, cfg in ((1, cfg1), (2, cfg2)):
                cfg["_two_run"] = k
                res = W.run_config(cfg, workdir=wd, keep_inputs=(k == 2))
                analyse(ctx, prop, cfg, res, orc)
        finally:
            shutil.rmtree(wd, ignore_errors=True)
        for v in ctx.violations:
            print("oracle:", v["signature"], "-", v["what"])
        return 1 if (ctx.violations or ctx.disagreements) else 0
    if w.get("mode"):
        # re-run the debug / pool comparison of that configuration
        class _R:
            def __init__(self, s_):
                self.s = s_

            def randrange(self, *_a):
                return self.s
        real_rng, ctx.rng = ctx.rng, _R(seed)
        try:
            if prop == "C07":
                from harness.props import c07
                mode_stage(ctx, prop, lambda c, case, static, trace: c07.oracle_trace(c, case, trace, static=static), 1)
            else:
                from harness.props import c06
                mode_stage(ctx, prop, lambda c, case, static, trace: c06.oracle_trace(c, case, static, trace), 1)
        finally:
            ctx.rng = real_rng
        for v in ctx.violations:
            print("oracle:", v["signature"], "-", v["what"])
        return 1 if ctx.violations else 0
    cfg = make_cfg(seed, w.get("wide"))
    res = W.run_config(cfg)
    try:
        if prop == "C07":
            from harness.props import c07
            analyse(ctx, prop, cfg, res, lambda c, case, static, trace: c07.oracle_trace(c, case, trace, static=static))
        else:
            from harness.props import c06
            analyse(ctx, prop, cfg, res, lambda c, case, static, trace: c06.oracle_trace(c, case, static, trace))
    finally:
        res.cleanup()
    for v in ctx.violations:
        print("oracle:", v["signature"], "-", v["what"])
    for dd in ctx.disagreements[:3]:
        print("disagreement:", dd["component"], dd["model"][:200], "|", dd["impl"][:200])
    return 1 if (ctx.violations or ctx.disagreements) else 0


def replay_c07(ctx, inp):
    return _replay(ctx, "C07", inp)


def replay_c06(ctx, inp):
    return _replay(ctx, "C06", inp)
