"""C03 — LDAR never worsens a leak; durations are bounded; non-repairables untouched.

Lean: Props/C03.lean (C03_le_baseline, C03_le_baseline_all(_E), C03_emit_le_baseline(_E) via the prefix relation
run_pre, C03_bounded, C03_bounded_partial, C03_nonrepairable, C03_partial(_E), C03_counterexample).  Tie: as C02 (same adapter and case set) + whole-run records.
"""
from harness import core
from harness.props import _emission_common as EC

MANIFEST_ENTRY = {
    "text": "Lean theorems prove, for every emission, tag/record schedule and horizon: active days <= active days of the no-LDAR run, unconditionally for all four emission classes (C03_le_baseline_all(_E)); emitted days <= emitted days of the no-LDAR run, also for intermittent repairable leaks (C03_emit_le_baseline(_E), from the prefix relation run_pre: while the program run is alive it agrees with the baseline on the whole on/off automaton); active days + pre-period days <= max(duration, pre-period days + 1) with the clean bound <= duration whenever the emission is younger than its duration at period start (C03_bounded, C03_bounded_partial), and for non-repairable emissions the whole observable life-cycle (status, active days, emitted days, end date) is independent of the schedule, never repaired, mitigation 0 (C03_nonrepairable, by a simulation relation over the day loop). C03_counterexample proves the clean duration bound false for an emission generated exactly `duration` days before the period (known finding F3). Model tied to the real emission classes / Component / Source by differential correspondence every run and by trace conformance of whole simulations (every second one with an intermittent non-repairable source and two repairable sources on one component); oracle evaluates the clauses on implementation outputs (program vs baseline), non-repairable emissions day by day on the per-day trace; domain / hypothesis hit counters in the evidence. Hardening stages on every run (shared with C02/C04): same-process history, shared inputs, deep copies / pickle round trips of real Components (no emission object shared between the world copies of two programs; the no-LDAR run must not depend on a program that ran before it in the same process), pinned copy-hook table, calendar stage, marker-like method names, whole runs over boundary periods, two simulations, pool mode, baseline listed last; exceptions of the code under test become broken obligations. Layer 3 (every run): the methods of the four emission classes are translated from the current source to Lean (harness/extract/py2lean.py, emission_src.py -> Generated/EmissionSrc.lean) and Props/EmissionTie.lean + EmissionOnSource.lean are re-checked: each translated method equals the model's function through the abstraction, iterating them is Emission.run (run_tie), and the C02/C03/C04 statements hold of the translated code; a method outside the translated subset is a note, a failing tie theorem a broken obligation.",
    "design_ref": "DESIGN.md 5.3, 4.1",
    "note": "trusted: Lean kernel + standard axioms; hand-written model tied by sampled/structured-exhaustive correspondence; harness adapters; durations of whole-run records taken from the generated configuration",
    "technique": "Lean 4 invariant + simulation-relation proofs over the emission state machine + differential correspondence + direct oracle",
}
MODULE = "LdarModel.Props.C03"
FILE = "LdarModel/Props/C03.lean"


def check(ctx, who, kind_rep, start, nrd, res, base, inp):
    b4 = max(0, -start)
    if res["activeDays"] > base["activeDays"]:
        ctx.violate("C03:longer-than-baseline", "emission active longer than in the no-LDAR run", inp)
    if res.get("emitDays") is not None and base.get("emitDays") is not None and res["emitDays"] > base["emitDays"]:
        # C03_emit_le_baseline: "never worsens" also in what the record reports as emitted
        ctx.violate("C03:emitted-more-than-baseline", "emission emitted on more days than in the no-LDAR run", inp)
    if nrd >= 1 and -nrd <= start:
        ctx.count(who + ":in-statement-domain")
        if start == -nrd:
            ctx.count(who + ":start==-duration(F3-domain)")
    if nrd >= 1 and -nrd <= start and res["activeDays"] + b4 > nrd:
        if start == -nrd and res["activeDays"] + b4 == nrd + 1:
            ctx.violate("C03:bounded:start==-duration",
                        "emission generated exactly `duration` days before the period is active one day beyond its duration", inp)
            ctx.count(who + ":F3-occurrences")
        else:
            ctx.violate("C03:bounded:other", "emission active longer than its configured maximum duration", inp)
    if not kind_rep:
        same = all(res[k] == base[k] for k in ("status", "activeDays", "emitDays") if k in base) \
            and res.get("endDate") == base.get("endDate", res.get("endDate"))
        if not same:
            ctx.violate("C03:nonrepairable-affected", "non-repairable emission differs between program and baseline", inp)
        if res["status"] == "repaired":
            ctx.violate("C03:nonrepairable-repaired", "non-repairable emission repaired", inp)
        if res["mitDays"] != 0:
            ctx.violate("C03:nonrepairable-mitigation", "non-repairable emission credited with mitigation", inp)


def check_trace(ctx, who, case, per_day, base_per_day, inp):
    """non-repairable emissions, day by day: status, active days, emitting days and the emitting flag of
    the program run equal those of the no-event run after *every* simulated day (a transient difference
    that heals before the end would be invisible in the final records)"""
    if case[3]:
        return
    a, b = EC.life_trace(per_day), EC.life_trace(base_per_day)
    ctx.count(who + ":nonrepairable-day-traces")
    ctx.count(who + ":nonrepairable-days-compared", len(a))
    if a != b:
        day = next((i for i, (x, y) in enumerate(zip(a, b)) if x != y), min(len(a), len(b)))
        ctx.violate("C03:nonrepairable-affected:transient",
                    "non-repairable emission differs from the no-LDAR run on day %d (status:activeDays:daysEmitting:emitting %s vs %s)"
                    % (day, a[day] if day < len(a) else None, b[day] if day < len(b) else None),
                    dict(inp, first_differing_day=day))


def wholerun_record(ctx, res, rec):
    base = EC.base_fields(rec)
    inp = {"cfg": res.cfg, "prog": rec["prog"], "sim": rec["sim"], "key": list(rec["key"]), "row": rec["row"],
           "baseline_row": rec["base"]}
    if base is None:
        ctx.violate("C03:wholerun:no-baseline-twin", "program emission has no twin in the baseline records", inp)
        return
    r = {k: rec[k] for k in ("status", "activeDays", "emitDays", "mitDays")}
    b = dict(base)
    if not rec["repairable"]:
        # end dates compared as strings of the two files
        if rec["row"]["Date Repaired or Expired"] != base["endDateStr"]:
            ctx.violate("C03:nonrepairable-affected", "non-repairable emission: end date differs from baseline", inp)
        if int(rec["row"]["Days Emitting"]) != int(rec["base"]["Days Emitting"]):
            ctx.violate("C03:nonrepairable-affected", "non-repairable emission: days emitting differ from baseline", inp)
    check(ctx, "wholerun", rec["repairable"], rec["start"], rec["nrd"], r, b, inp)
    if rec["nrd"] >= 1 and rec["start"] < -rec["nrd"]:
        # outside the domain of the unit statement (the generator of THIS configuration cannot produce such a
        # start), but in a whole run it is a leak that has already lived longer than the configured maximum
        ctx.violate("C03:bounded:began-before-the-earliest-possible-start",
                    "an emission of a whole run began more than the configured maximum duration before the period "
                    "and is on record in the period (days before the period %d > duration %d)" % (-rec["start"], rec["nrd"]), inp)
    # the duration bound is judged for every program (the no-LDAR one included) of every simulation number,
    # against the duration configured for THIS run
    ctx.count("wholerun_bounded-duration_evaluated:%s:sim%s" % ("baseline" if rec["prog"] == res.cfg["baseline"] else "program",
                                                               rec["sim"] if rec["sim"] < 3 else "3+"))
    if not EC.tagging_methods(res.cfg, rec["prog"]):
        ctx.count("wholerun_records_of_programs_that_cannot_tag:%s" % ("no-methods" if not next(p_["methods"] for p_ in res.cfg["programs"] if p_["name"] == rec["prog"]) else "coverage-0"))
        if (r["status"], r["activeDays"], r["emitDays"]) != (b["status"], b["activeDays"], b["emitDays"]):
            ctx.violate("C03:zero-coverage-program-differs-from-baseline",
                        "a program none of whose methods can see any emission ends a leak differently from the no-LDAR run", inp)
    if rec["nrd"] <= 2:
        ctx.count("wholerun_records_duration<=2")
    ctx.count("wholerun_oracle_evaluated")
    ctx.count("wholerun_oracle:%s%s" % ("repairable" if rec["repairable"] else "non-repairable",
                                        "-intermittent" if rec["intermittent"] else ""))
    if rec["prog"] != res.cfg["baseline"] and rec["tags"]:
        ctx.count("wholerun_records_reached_by_events:%s" % ("repairable" if rec["repairable"] else "non-repairable"))


def run(ctx):
    ctx.rule = ("same case set as C02 (structured-exhaustive core over reachable starts: persistent and intermittent "
                "kinds, one/two tags, reporting delay {0,2}; + random small/large, 8 emission kinds, tag + "
                "detection-only events); every case is compared with the no-event run of the same emission, "
                "non-repairable ones day by day; whole simulations (every second one with an intermittent "
                "non-repairable source and two repairable sources on one component): every record joined with "
                "its baseline twin")
    core.lean_stage(ctx, MODULE, FILE, drivers=["drv_emission"])
    EC.tie_stage(ctx)  # layer 3: the emission methods, translated from the current source, are the model's functions
    cases = EC.build_cases(ctx)
    results = EC.correspond(ctx, cases)
    cache = {}
    for (c, res, ml, il) in results:
        b = EC.baseline_result(ctx, cache, c)
        if b is None:
            continue
        base, base_days = b
        inp = {"case": list(c), "program": res, "baseline": base}
        check(ctx, "case", c[3], c[0], c[1], res, base, inp)
        if not c[3]:
            check_trace(ctx, "case", c, il.split(" | ")[1].split(";") if " | " in il and il.split(" | ")[1] else [],
                        base_days, inp)
        ctx.count("oracle_evaluated")
    for (c, res, ml, il) in results[:3]:
        ctx.sample({"case": list(c), "impl": il.split(" | ")[0]})
    EC.shared_component_stage(
        ctx, lambda ctx, case, res, base, w: check(ctx, "shared", case[3], case[0], case[1], res, base,
                                                  {"world": w, "case": list(case), "program": res, "baseline": base}),
        per_trace=lambda ctx, case, tr, btr, w: check_trace(ctx, "shared", case, tr, btr, {"world": w, "case": list(case)}))
    EC.hardening_stages(
        ctx, results, lambda ctx, case, res, base, origin: check(
            ctx, "hardening", case[3], case[0], case[1], res, base,
            {"case": list(case), "origin": origin, "program": res, "baseline": base}))
    EC.wholerun_stage(ctx, 5, 21, wholerun_record)
    EC.finish_hit_rates(ctx)
    for k in ("wholerun:F3-occurrences", "wholerun:start==-duration(F3-domain)",
              "wholerun_oracle:non-repairable-intermittent", "wholerun_records_reached_by_events:non-repairable"):
        ctx.counts.setdefault(k, 0)
        if ctx.counts[k] == 0:
            ctx.note("whole runs of this seed: %s = 0" % k)
    ctx.extra["domain_evidence"] = {k: v for k, v in sorted(ctx.counts.items())
                                    if k.split(":")[0] in ("case", "shared", "wholerun") or k.startswith("wholerun_")}
    _end_arg_problem(ctx)


def _end_arg_problem(ctx):
    from harness.adapters import emission as E

    for msg in E.END_ARG_PROBLEM:
        ctx.broke("correspondence: summary end-date argument", msg)


def replay(ctx, data):
    inp = data.get("input", {})
    if "case" not in inp:
        print("replay: not a single-emission case:", data.get("signature"), data.get("broken_obligations"))
        print(str(inp)[:2000])
        return 1
    c = inp["case"]
    case = tuple(c[:8]) + ([tuple(e) for e in c[8]],)
    res = EC.impl_result(case)
    base = EC.impl_result(EC.without_events(case))
    check(ctx, "case", case[3], case[0], case[1], res, base, {"case": list(case)})
    check_trace(ctx, "case", case, EC.impl_full(case)[1], EC.impl_full(EC.without_events(case))[1], {"case": list(case)})
    print("program :", res)
    print("baseline:", base)
    for v in ctx.violations:
        print("oracle:", v["signature"], "-", v["what"])
    return 1 if ctx.violations else 0
