"""C08 — crews never exceed their workday and never work in disallowed weather.

Lean: Props/C08.lean (C08 : C08_statement; rem_nonneg, complete_trip_home_fits, step_decision,
day_rem_nonneg, day_budget, budget_daylight, day_budget_workday, day_visits, crews_used,
weather_visited, checkWeather_iff, weather_unworkable, one_report_per_request, configured_crews_bound,
methodCrews_table,
step_budget_fractional, budget_daylight_fractional, out_reqOk, day_unit_free; table obligations
crew_no_cross_case_state, pickle_roundtrip_order over Generated/CrewCost.lean).
Tie: the REAL Method.survey_site on every integer tuple R<=24, S<=8, T<=4, P<=S x deployment type x
weather outcome (exhaustive, base class and component-level subclass), multi-day continuation of one
survey on the report object carried by the real SurveyPlanner, the REAL Method.deploy_crews /
ComponentLevelMethod.deploy_crews (all four method classes) on generated work plans, the real
get_daylight_hours / DaylightCalculatorAve, the real WeatherLookup + nearest-cell assignment +
check_weather over the synthetic cube -- each against drv_crew.
Oracle: the clauses of the property evaluated on the implementation's own outputs (per-visit
wrapper trace, crew reports, survey reports, the real GenericSchedule.update for "stays queued").
"""
from __future__ import annotations

import datetime as dt
import os

from harness import core
from harness.props import _crew_common as CC

MANIFEST_ENTRY = {
    "text": "Lean theorem C08 proves, for every method description, day budget, crew count and work plan (any number of requests with any survey/travel times, partial progress and per-site weather), by induction over the loop of deploy_crews: every crew's remaining minutes stay >= 0; the minutes charged to a crew over its visits (travel + survey) plus its trip home never exceed the budget (day_budget), which is 60*min(workday, daylight) when daylight is considered (budget_daylight, day_budget_workday; fractional-hour version over any ordered field: step_budget_fractional, budget_daylight_fractional); a completed or partial survey leaves the trip home (complete_trip_home_fits); no more crews are used than the method has (crews_used), and a mobile method configured with a positive crew_count has exactly that many crews whatever LDAR-Sim's own estimate, so crews deployed <= crew_count and crew-minutes <= crew_count x budget (methodCrews, configured_crews_bound, methodCrews_table); a site is visited only if temperature, wind and precipitation are all inside the envelope (weather_visited, checkWeather_iff) and an unworkable site's report is unchanged and re-queued (weather_unworkable); every planned request gets exactly one report (one_report_per_request); the reports handed back unfinished are again admissible requests, so the day theorems iterate over all days (out_reqOk); the daylight cap is part of C08_statement; the loop is homogeneous in the unit of time (day_unit_free), so instances with fractional minutes are integer instances in a finer unit. Table obligations regenerated from /repo on every run: no function of the modelled modules mutates a class-/module-level container or is cached (crew_no_cross_case_state), __reduce__/_reconstruct argument orders agree (pickle_roundtrip_order); same-process history (colliding names/ids/dates, both orders, fresh process), shared-input construction, boundary dates, real travel-time shapes and pickling round trips are exercised against the real code. The model is tied on every run to the real Method.survey_site (exhaustive on R<=24,S<=8,T<=4,P<=S x deployment type x weather outcome), to multi-day continuations, to the real Method/ComponentLevelMethod.deploy_crews for all four method classes, to the real daylight and weather lookup code, and the property's clauses are evaluated directly on the implementation outputs; whole simulations add the same clauses on wrapper traces. Layer 3 (every run): Method.survey_site (with _determine_if_site_survey_can_be_completed) is translated from the current source to Lean (harness/extract/py2lean.py, crew_src.py -> Generated/CrewSrc.lean) and Props/CrewTie.lean is re-checked: report, crew minutes, returned values and dates after the translated call are Crew.surveyStep / applyStep for all inputs; a method outside the translated subset is a note, a failing tie theorem a broken obligation.",
    "design_ref": "DESIGN.md 5.8, 4.2",
    "note": "trusted: Lean kernel + propext/Classical.choice/Quot.sound; the hand-written model (tied by exhaustive/sampled correspondence, not proof); harness adapters and stubs (StubSite, synthetic weather cube, stub ephem); minutes are integers in the theorems of the day loop; fractional minutes are covered by homogeneity (day_unit_free) + step-level theorems over ordered fields, and tied by the fractional-daylight stage with exact Fractions (float rounding of non-dyadic daylight hours is outside); sampled travel times are inputs; the interplay with the queue over several days (request really served again) belongs to C07",
    "technique": "Lean 4 invariant proof over the deploy_crews loop + exhaustive/differential correspondence with the real classes + direct oracle",
}

MODULE = "LdarModel.Props.C08"
FILE = "LdarModel/Props/C08.lean"


# ------------------------------------------------------------------------------------------------
# oracles (property clauses on implementation outputs)
# ------------------------------------------------------------------------------------------------
def oracle_step(ctx, t, res, cls):
    (R, S, T, P, stationary, workable) = t[:6]
    if stationary and P > 0:
        ctx.count("hyp:step-outside(stationary,P>0)")
        return  # a stationary method never accumulates minutes: outside the hypotheses
    ctx.count("hyp:step-ok")
    inp = {"step": list(t), "cls": cls, "unworkable_kind": res.get("unworkable_kind", 0), "impl": {k: (list(v) if isinstance(v, tuple) else str(v) if isinstance(v, dt.date) else v) for k, v in res.items()}}
    rp, before = res["report"], res["before"]
    today = rp[0] - before[0]
    reached = res["visited"] and (rp[3] == 1 or today > 0)
    if res["rem"] < 0:
        ctx.violate("C08:step:negative-remaining", "crew minutes remaining are negative after a survey step", inp)
    if reached and res["rem"] < res["travel"]:
        ctx.violate("C08:step:trip-home-does-not-fit", "after a completed/partial survey the trip home exceeds the remaining minutes", inp)
    if res["travel"] + today + (res["travel"] if reached else 0) > R:
        ctx.violate("C08:step:minutes-exceed-remaining", "travel + survey + trip home assigned by one step exceed the crew's remaining minutes", inp)
    if today < 0 or res["travel"] < 0:
        ctx.violate("C08:step:negative-minutes", "negative survey or travel minutes", inp)
    if not workable:
        if res["visited"] or rp != before or res["rem"] != R:
            ctx.violate("C08:step:visited-in-unworkable-weather", "site visited / report or crew changed although the weather is outside the envelope", inp)
    if not (0 <= rp[0] <= max(S, 0) or stationary):
        ctx.violate("C08:step:report-minutes-out-of-range", "time_surveyed outside [0, S]", inp)


def oracle_multiday(ctx, c, res, steps=None, cls="method"):
    (S, stationary, days) = c
    inp = {"multiday": [S, stationary, [list(d) for d in days]], "cls": cls, "impl": [[list(r), t] for (r, t) in res]}
    # the budget clauses on every real step of the continuation (resumed reports included)
    for k, st in enumerate(steps or []):
        if st is None:
            continue
        today = st["after"][0] - st["before"][0]
        reached = st["visited"] and (st["after"][3] == 1 or today > 0)
        info = dict(inp, failing_day=k, failing_step={"R": st["R"], "rem": st["rem"], "travel": st["travel"], "today": today,
                                       "report_before": list(st["before"]), "report_after": list(st["after"])})
        resumed = st["before"][0] > 0
        tag = ":resumed" if resumed else ""
        if st["rem"] < 0:
            ctx.violate("C08:multiday:negative-remaining" + tag, "crew minutes remaining are negative after a step of a multi-day survey", info)
        if reached and st["rem"] < st["travel"]:
            ctx.violate("C08:multiday:trip-home-does-not-fit" + tag, "after a completed/partial visit of a multi-day survey the trip home exceeds the remaining minutes", info)
        if st["travel"] + today + (st["travel"] if reached else 0) > st["R"]:
            ctx.violate("C08:multiday:minutes-exceed-remaining" + tag, "travel + survey + trip home assigned on one day of a multi-day survey exceed the crew's minutes", info)
        if today < 0:
            ctx.violate("C08:multiday:negative-minutes" + tag, "negative survey minutes on a day of a multi-day survey", info)
    total = 0
    for (rep, today) in res:
        total += today
        (surveyed, _, _, complete, in_progress) = rep
        if total != surveyed:
            ctx.violate("C08:multiday:minutes-do-not-add-up", "minutes surveyed per day do not sum to the report's time_surveyed", inp)
            return
        if complete and surveyed != (0 if stationary else S):
            ctx.violate("C08:multiday:complete-with-wrong-minutes", "survey complete but accumulated minutes != site survey time", inp)
            return
        if not complete and in_progress and not (0 < surveyed < S):
            ctx.violate("C08:multiday:in-progress-out-of-range", "survey in progress with P outside (0, S)", inp)
            return
        if not complete and not in_progress and surveyed != 0:
            ctx.violate("C08:multiday:minutes-without-progress-flag", "minutes on a report that is neither complete nor in progress", inp)
            return


def measure_req_ok(ctx, case, r):
    """the hypothesis `ReqOk` of the day theorems, evaluated on the requests as they really were at
    the start of the day (the report states the real planners held): T >= 0, 0 <= P <= S,
    stationary => P = 0, report not complete"""
    from harness.adapters import crew as C

    stationary = case[1]
    for q in map(C.req_fields, case[7]):
        (sid, S, P, ip, trav, T, scost, w, td) = q
        ok = T >= 0 and 0 <= P <= S and (not stationary or P == 0)
        ctx.count("hyp:ReqOk-ok" if ok else "hyp:ReqOk-miss")


def oracle_day(ctx, case, r, check_requeue=True):
    from harness.adapters import crew as C

    measure_req_ok(ctx, case, r)
    (cls, stationary, cost_type, unit_cost, budget, crews, consider_weather, reqs) = case[:8]
    inp = {"day": CC.case_json(case)}
    # the crews the method has BY ITS CONFIGURATION (crew_count; the documented estimate only when
    # crew_count is 0) -- never what the Method object reports about itself
    n_crews = C.configured_crews(case)
    if len(r.crews) != n_crews:
        ctx.violate("C08:day:method-has-other-than-configured-crews",
                    "the method was built with a number of crews different from the configured crew_count "
                    "(%d crew reports, configuration gives %d)" % (len(r.crews), n_crews), inp)
    total_minutes = sum(sum(C.crew_ghost(r.trace, cid)) for cid in {t["crew"] for t in r.trace})
    if total_minutes > n_crews * budget:
        ctx.violate("C08:day:crew-minutes-exceed-configured-crews-x-budget",
                    "crew-minutes worked in the day (travel + survey + trips home) exceed configured crews x day budget", inp)
    reqs = [C.req_fields(q) for q in reqs]
    by_site = {("s%d" % q[0]): q for q in reqs}
    # per-crew minutes incl. trip home
    crew_ids = sorted({t["crew"] for t in r.trace})
    for cid in crew_ids:
        spent, home = C.crew_ghost(r.trace, cid)
        if spent + home > budget:
            ctx.violate("C08:day:crew-minutes-exceed-budget",
                        "travel + survey minutes of a crew plus its trip home exceed the day budget", inp)
    for t in r.trace:
        if t["rem"] < 0 or t["R"] < 0:
            ctx.violate("C08:day:negative-remaining", "a crew's remaining minutes are negative", inp)
        q = by_site[t["site"]]
        if t["visited"] and not CC.model_workable(case, q):
            ctx.violate("C08:day:visited-in-unworkable-weather", "a site was visited although its weather is outside the envelope", inp)
    for (cid, rem, dep) in r.crews:
        if rem < 0:
            ctx.violate("C08:day:negative-remaining", "a crew's remaining minutes are negative", inp)
    if len(crew_ids) > n_crews or any(not (0 <= c < max(n_crews, 1)) for c in crew_ids) \
            or sum(1 for c in r.crews if c[2]) > n_crews:
        ctx.violate("C08:day:more-crews-than-available", "more crews used than the method has", inp)
    if set(r.reports) != set(by_site):
        ctx.violate("C08:day:request-without-report", "a planned request did not receive a report", inp)
    queued = done = None
    if check_requeue:
        queued, done = _requeue(r)
    for sid, q in by_site.items():
        if not CC.model_workable(case, q):
            before = (q[2], q[8], q[4], 0, int(q[3]))
            if r.reports.get(sid) != before:
                ctx.violate("C08:day:unworkable-report-changed", "report of a site with unworkable weather was modified", inp)
            if queued is not None and (sid in done or len(queued.get(sid, [])) != 1):
                ctx.violate("C08:day:unworkable-request-not-requeued", "request of a site with unworkable weather is not back in the queue exactly once", inp)


def _requeue(r):
    from harness.adapters import crew as C

    wp = r.workplan
    return C.requeue_classes(wp)


# ------------------------------------------------------------------------------------------------
# stages
# ------------------------------------------------------------------------------------------------
def stage_steps(ctx):
    tuples = list(CC.with_stale_today(CC.step_tuples()))
    for cls in ("method", "component"):
        ts = tuples
        if cls == "component" and ctx.quick:
            ts = [t for t in tuples if ctx.rng.random() < 0.35]
        for (t, res) in CC.correspond_steps(ctx, ts, cls=cls):
            oracle_step(ctx, t, res, cls)
            b = CC.step_branch(t, res)
            ctx.count("step:" + b)
            if not (t[4] and t[3] > 0):
                ctx.nontrivial.add(("step", cls, t[4], b, min(t[2], 2), t[3] > 0, t[0] == t[1] + 2 * t[2] - t[3], t[6] > 0))
            if t[6] > 0:
                ctx.count("step:resumed-with-stale-today")
    ctx.exhaustive = True
    ctx.sample({"step": [24, 8, 4, 0, False, True], "impl": "rem 8 surveyed 8 complete"})


def stage_multiday(ctx):
    cases = []
    small = list(CC.small_multidays())
    if ctx.quick:
        ctx.rng.shuffle(small)
        small = small[:2500]
    cases += small
    cases += [CC.random_multiday(ctx.rng) for _ in range(ctx.pick(5000, 150000))]
    cases += [CC.random_multiday(ctx.rng, big=True) for _ in range(ctx.pick(600, 15000))]
    cases += [CC.long_multiday(ctx.rng) for _ in range(ctx.pick(1500, 40000))]
    for cls in ("method", "component"):
        sub = cases if cls == "method" else cases[:: ctx.pick(6, 3)]
        for (c, res, steps) in CC.correspond_multiday(ctx, sub, cls=cls):
            oracle_multiday(ctx, c, res, steps, cls)
            last = res[-1][0]
            ndays_worked = sum(1 for (_, t) in res if t > 0)
            if ndays_worked >= 3:
                ctx.count("multiday:three-or-more-crew-days")
            ctx.count("multiday:" + ("complete" if last[3] else "in-progress" if last[4] else "not-started"))
            ctx.nontrivial.add(("multi", cls, c[1], bool(last[3]), bool(last[4]), min(ndays_worked, 4)))


def stage_days(ctx):
    cases = []
    for size, n in (("tiny", ctx.pick(5000, 120000)), ("small", ctx.pick(4000, 90000)), ("big", ctx.pick(500, 12000))):
        cases += [CC.random_day(ctx.rng, size) for _ in range(n)]
    k = 0
    for (c, r, il) in CC.correspond_days(ctx, cases):
        oracle_day(ctx, c, r, check_requeue=(k % ctx.pick(4, 2) == 0))
        k += 1
        ctx.count("day:cls:" + c[0])
        n_unwork = sum(1 for q in c[7] if not CC.model_workable(c, q))
        n_part = sum(1 for rep in r.reports.values() if rep[4] and not rep[3])
        n_done = sum(1 for rep in r.reports.values() if rep[3])
        n_nocrew = len(c[7]) - len(r.trace)
        exact = any(t["last"] and t["after"][3] and t["rem"] == t["travel"] for t in r.trace)
        if c[7]:
            ctx.nontrivial.add(("day", c[0], c[1], min(c[5], 3), min(n_unwork, 2), min(n_part, 2), min(n_done, 3),
                                min(n_nocrew, 2), exact))
        if exact:
            ctx.count("day:last-survey-exhausts-crew")
        if n_unwork:
            ctx.count("day:with-weather-abort")
        if n_nocrew:
            ctx.count("day:request-without-crew")
    for c in cases[:2]:
        ctx.sample({"day": CC.case_json(c)})
    return cases


def stage_campaigns(ctx):
    """deploy_crews days that start from the reports the REAL code carried over from earlier days"""
    camps = [six_sites_campaign()] + [CC.random_campaign(ctx.rng) for _ in range(ctx.pick(500, 8000))]
    for camp, days in CC.correspond_campaigns(ctx, camps):
        worked = {}
        for d, (case, r) in enumerate(days):
            n0 = len(ctx.violations)
            oracle_day(ctx, case, r, check_requeue=False)
            for v in ctx.violations[n0:]:
                # make the failing input the campaign itself (replays from day 0 on the real objects)
                v["signature"] = v["signature"].replace("C08:day:", "C08:campaign:")
                v["input"] = {"campaign": camp, "failing_day": d, "day_case": v["input"].get("day")}
            carried = sum(1 for q in case[7] if q[2] > 0 and q[8] > 0)
            if carried:
                ctx.count("campaign:day-with-carried-report(stale today>0)")
            for t in r.trace:
                if t["after"][0] > t["before"][0] or (t["after"][3] and not t["before"][3]):
                    worked[t["site"]] = worked.get(t["site"], 0) + 1
        long_sites = sum(1 for v in worked.values() if v >= 3)
        if long_sites:
            ctx.count("campaign:site-needing-3+-crew-days")
        ctx.nontrivial.add(("campaign", camp["cls"], min(camp["crews"], 3), min(long_sites, 2), camp["weather"] is not None,
                            min(len(days), 6)))
    ctx.sample({"campaign": camps[0]})


def six_sites_campaign():
    """six 500-minute sites, 6 h workday, no travel, one crew"""
    return {"cls": "method", "budget": 360, "crews": 1, "per_day_plan": 6, "ndays": 12,
            "sites": [(500, 0, 0)] * 6, "weather": None}


def stage_fractional(ctx):
    """fractional minutes end to end: a daylight-sensitive method, daylight hours off the quarter-hour
    grid given as exact Fractions, a non-empty plan.  The real deploy_crews then runs on fractional
    minutes; the integer model is fed the same instance in units of 1/q minute (q = denominator of
    the budget; `surveyStep_scale`: the model is homogeneous), replies compared after scaling; the
    budget clauses are evaluated exactly on the wrapper trace."""
    from fractions import Fraction
    from harness.adapters import crew as C

    cases = []
    for _ in range(ctx.pick(1200, 20000)):
        base = CC.random_day(ctx.rng, ctx.rng.choice(["small", "small", "big"]))
        if base[1]:
            continue
        h = ctx.rng.choice([Fraction(737, 100), Fraction(69183, 10000), Fraction(ctx.rng.randint(1, 2399), 100),
                            Fraction(ctx.rng.randint(1, 167), 7), Fraction(ctx.rng.randint(1, 311), 13)])
        w = ctx.rng.choice([4, 6, 8, 8, 10, 12, 24])
        budget = 60 * min(Fraction(w), h)
        case = (base[0], False, base[2], base[3], budget, max(base[5], 1), base[6], base[7], 0)
        cases.append((case, (w, h)))
    lines = []
    for case, dl in cases:
        q = Fraction(case[4]).denominator
        scaled = list(case)
        scaled[4] = int(case[4] * q)
        scaled[7] = [(sid, S * q, P * q, ip, trav * q, T * q, sc, wx, td * q) for (sid, S, P, ip, trav, T, sc, wx, td)
                     in map(C.req_fields, case[7])]
        lines.append(C.day_line(tuple(scaled)))
    model = core.LeanDriver("drv_crew").run(lines)
    for (case, dl), ml in zip(cases, model):
        r = C.impl_day(case, daylight=dl)
        q = Fraction(case[4]).denominator
        il = C.impl_day_reply(case, r, scale=q)
        ctx.evaluations += 1
        if il != ml:
            ctx.disagree("crew.day-fractional/" + case[0], {"day": _frac_json(case), "daylight": [dl[0], str(dl[1])]}, ml, il)
        n0 = len(ctx.violations)
        oracle_day(ctx, case, r, check_requeue=False)
        for v in ctx.violations[n0:]:
            v["signature"] = v["signature"].replace("C08:day:", "C08:day-fractional:")
            v["input"] = {"fractional_day": _frac_json(case), "daylight": [dl[0], str(dl[1])]}
        first = {}
        for t in r.trace:
            first.setdefault(t["crew"], t["R"])
        if any(v != case[4] for v in first.values()):
            ctx.violate("C08:budget:not-min-workday-daylight", "crew does not start the day with 60*min(workday, daylight) (fractional)",
                        {"fractional_day": _frac_json(case), "daylight": [dl[0], str(dl[1])]})
        frac = q > 1
        ctx.count("fractional:" + ("non-integer-minutes" if frac else "integer-minutes"))
        ctx.nontrivial.add(("frac", case[0], frac, dl[1] < dl[0], min(len(r.trace), 4),
                            any(t["last"] and t["after"][3] for t in r.trace)))
    ctx.traces += len(cases)


def _frac_json(case):
    c = CC.case_json(case)
    c[4] = str(case[4])
    return c


def stage_history(ctx):
    """LESSONS 1: consecutive days in one process with colliding keys (method name, site ids, crew ids,
    date) and differing values, forward and reverse, and in a fresh process"""
    from harness.adapters import crew as C
    from harness.props import _crew_history as H

    n_seq = ctx.pick(80, 800)
    fresh_items, fresh_ref = [], []
    for k in range(n_seq):
        name = ctx.rng.choice(CC.METHOD_NAMES)
        date = ctx.rng.choice(CC.BOUNDARY_DATES)
        items = []
        for _ in range(ctx.rng.randint(2, 5)):
            c = list(CC.random_day(ctx.rng, ctx.rng.choice(["tiny", "small"])))
            c[7] = [(i,) + tuple(q[1:]) for i, q in enumerate(c[7])]      # same site ids s0, s1, ...
            c[9] = {"name": name, "date": date}
            items.append(["day", CC.case_json(tuple(c))])
        n, fwd = H.check_orders(ctx, "C08", items, "crew-day")
        ctx.evaluations += n
        if k < ctx.pick(12, 60):
            fresh_items += items
            fresh_ref += fwd
        ctx.nontrivial.add(("history", len(items), name in ("kept", "NA", "Logs"), date[5:]))
    ctx.evaluations += H.check_fresh(ctx, "C08", fresh_items, "crew-day", fresh_ref)
    ctx.traces += n_seq


def stage_shared_inputs(ctx):
    """LESSONS 1: several real methods built from ONE properties dict (as the simulation manager does
    for every program and simulation) and one shared list of sites; each runs a day; results must equal
    the run on private inputs and the shared inputs must come out deep-equal"""
    import copy
    from harness.adapters import crew as C

    for _ in range(ctx.pick(150, 2500)):
        base = CC.random_day(ctx.rng, ctx.rng.choice(["tiny", "small"]))
        (cls0, stationary, cost_type, unit_cost, budget, crews, cw, reqs, upfront, opts) = base
        if stationary or crews == 0:
            continue
        reqs = [C.req_fields(q) for q in reqs]
        travel_cfg = ctx.rng.choice([[5.0, 15.0, 30.0], 7, 12.5, [0.0]])
        props = C.properties(workday=1, crews=crews, travel=travel_cfg, per_day=0, per_site=unit_cost, upfront=upfront)
        before = copy.deepcopy(props)
        sites = [C.StubSite("s%d" % q[0], q[1], q[6]) for q in reqs]
        replies = []
        classes = [ctx.rng.choice(CC.CLASSES) for _ in range(ctx.rng.randint(2, 3))]
        inp = {"shared_inputs": {"classes": classes, "day": CC.case_json(base), "travel": travel_cfg}}
        ok = True
        for cls in classes:
            def one(cls=cls):
                m = C.make_method_from(cls, props, sites=(sites or None), consider_weather=cw)
                m._max_work_hours = C.hours_for(budget)
                C.TravelScript(m, [])
                planners = []
                for s_, q in zip(sites, reqs):
                    pl = C.SurveyPlanner(s_)
                    if q[2] or q[3] or q[4] or q[8]:
                        pl._active_survey_report = C.fresh_report(s_.get_id(), q[2], q[3], q[4], today=q[8])
                    planners.append(pl)
                r = C.run_day(m, sites, planners, reqs, C.DATE0)
                case = (cls, False, "site", unit_cost, budget, crews, cw, reqs, upfront)
                return C.impl_day_reply(case, r), C.impl_day_reply(case, C.impl_day(case))
            got = CC.guarded(ctx, "crew.shared-inputs", inp, one)
            if got is None:
                ok = False
                break
            replies.append(got)
            ctx.evaluations += 1
        if not ok:
            continue
        if any(a != b for (a, b) in replies):
            ctx.violate("C08:history:shared-inputs:result-differs-from-private-inputs",
                        "a method built from a shared properties dict / site list behaves differently from one built from private copies",
                        dict(inp, replies=[list(x) for x in replies]))
        if props != before:
            diff = [k for k in before if props.get(k) != before[k]]
            ctx.violate("C08:history:shared-inputs:properties-modified",
                        "constructing / deploying a method modified the shared method-parameter dict", dict(inp, changed_keys=diff))
        ctx.nontrivial.add(("shared", len(classes), isinstance(travel_cfg, list), cw))


def stage_travel_shapes(ctx):
    """LESSONS 3: the configured travel time as int, float and multi-valued list through the REAL
    _get_travel_time (every other stage scripts the draw): an int minute count from the configured
    values, the configuration untouched; the budget clauses hold with the drawn value"""
    import copy
    from harness.adapters import crew as C

    shapes = [0, 7, 30, 2.5, 3.5, 7.49, 12.0, [30.0], [15.0, 45.0], [5.0, 10.5, 20.0, 60.0], [0.0, 0.0], [1.4, 1.6]]
    for cls in ("method", "component"):
        for tv in shapes:
            inp = {"travel_shape": {"cls": cls, "configured": tv}}
            got = CC.guarded(ctx, "crew.travel-shape", inp, lambda: C.impl_travel_samples(copy.deepcopy(tv), 60, cls))
            if got is None:
                continue
            samples, after = got
            allowed = {round(x) for x in (tv if isinstance(tv, list) else [tv])}
            ctx.evaluations += 1
            if any((not isinstance(x, int)) or x not in allowed for x in samples) or after != tv:
                ctx.violate("C08:travel:sample-not-from-configuration",
                            "the travel time drawn for a visit is not (the rounding of) a configured value, or the configuration changed",
                            dict(inp, samples=sorted(set(map(str, samples))), after=after))
            if isinstance(tv, list) and len(set(allowed)) > 1 and len(set(samples)) == 1:
                ctx.count("travel:list-always-same-value")
            ctx.nontrivial.add(("travel", cls, type(tv).__name__, len(allowed)))
            # a step with the real draw: budget clauses with the travel time the step returned
            m = C.make_method(cls, travel=copy.deepcopy(tv), consider_weather=False)
            for R in (0, 20, 61, 200):
                site = C.StubSite("s0", 40)
                crew = C.CrewDailyReport(0, R)
                rep = C.fresh_report("s0")
                res = m.survey_site(crew=crew, survey_report=rep, site_to_survey=site, weather=None, curr_date=C.DATE0)
                T = res[1]
                today = rep.time_surveyed
                reached = rep.survey_complete or today > 0
                ctx.evaluations += 1
                if crew.day_time_remaining < 0 or (reached and crew.day_time_remaining < T) or T + today + (T if reached else 0) > R \
                        or (reached and T not in allowed):
                    ctx.violate("C08:step:minutes-exceed-remaining", "budget clauses fail with the really sampled travel time",
                                dict(inp, R=R, travel=T, today=today, rem=crew.day_time_remaining))


def stage_crew_count(ctx):
    """how many crews a method is built with, through the REAL constructors of all four classes:
    configured crew_count below / equal to / above LDAR-Sim's own estimate (a positive crew_count must
    win in every case), crew_count 0 (the documented estimate is used), follow-up methods (estimate 1),
    stationary methods (one pseudo crew).  Expectation from the configuration; model = methodCrews."""
    from harness.adapters import crew as C

    cases = []
    for pf in CC.PORTFOLIOS:
        for configured in (0, 1, 2, 3, 5, 7, 9, 20):
            for follow_up in (False, True):
                for stationary in (False, True):
                    cases.append((stationary, follow_up, configured, pf))
    if ctx.quick:
        ctx.rng.shuffle(cases)
        cases = cases[:120]
    model = core.LeanDriver("drv_crew").run([C.crews_line(*c) for c in cases])
    for c, ml in zip(cases, model):
        (stationary, follow_up, configured, pf) = c
        est = C.crew_estimate(pf)
        for cls in CC.CLASSES:
            inp = {"crew_count": {"cls": cls, "stationary": stationary, "follow_up": follow_up, "configured": configured,
                                  "portfolio": pf, "ldar_sim_estimate": est}}
            got = CC.guarded(ctx, "crew.count/" + cls, inp, lambda: C.impl_crews(cls, stationary, follow_up, configured, pf))
            if got is None:
                continue
            n, ids = got
            ctx.evaluations += 1
            if str(n) != ml:
                ctx.disagree("crew.count/" + cls, inp, ml, str(n))
            rel = "stationary" if stationary else "zero" if configured == 0 else \
                "below-estimate" if configured < est else "equal-estimate" if configured == est else "above-estimate"
            ctx.count("crew-count:" + rel)
            ctx.nontrivial.add(("crew-count", cls, rel, follow_up))
            inp["built_with"] = n
            if not stationary and configured > 0 and (n != configured or ids != list(range(configured))):
                ctx.violate("C08:crews:configured-crew-count-not-used" + (":shortage" if configured < est and not follow_up else ""),
                            "a method configured with a positive crew_count is built with a different number of crews", inp)
            if stationary and n != 1:
                ctx.violate("C08:crews:stationary-not-one-crew", "a stationary method has other than one pseudo crew", inp)
    ctx.traces += len(cases)


def stage_budget(ctx):
    from harness.adapters import crew as C

    # integer hours: model vs implementation, exhaustive 0..24 x 0..24 x {daylight considered or not}
    cases = [(cd, w, d) for cd in (True, False) for w in range(0, 25) for d in range(0, 25)]
    if ctx.quick:
        cases = [c for c in cases if ctx.rng.random() < 0.3 or c[1] in (0, 8, 24) or c[2] in (0, c[1], 24)]
    model = core.LeanDriver("drv_crew").run(["budget %d %d %d" % (int(cd), w, d) for (cd, w, d) in cases])
    for (cd, w, d), ml in zip(cases, model):
        for cls in ("method", "component"):
            got = C.impl_budget(cd, w, d, cls=cls)
            ctx.evaluations += 1
            if str(got) != ml:
                ctx.disagree("crew.budget/" + cls, {"budget": [cd, w, d]}, ml, str(got))
            if got != 60 * (min(w, d) if cd else w):
                ctx.violate("C08:budget:not-min-workday-daylight",
                            "crews start the day with minutes != 60*min(workday, daylight)", {"budget": [cd, w, d], "got": got})
    # fractional daylight on the quarter-hour grid through the real DaylightCalculatorAve, over periods
    # chosen on purpose: a full leap year, periods that straddle New Year / the leap day, periods that do
    # not start on 1 January, 1- and 2-day periods; half of the calculators go through a pickling round trip
    periods = [(dt.date(2024, 1, 1), ctx.pick(366, 366)), (dt.date(2023, 12, 30), 4), (dt.date(2024, 12, 31), 1),
               (dt.date(2024, 2, 28), 2), (dt.date(2021, 11, 15), ctx.pick(60, 420)), (dt.date(2020, 12, 31), 2)]
    hours = {}
    for pi, (start, nd) in enumerate(periods):
        hrs = {start + dt.timedelta(days=k): ctx.rng.randrange(0, 97) / 4.0 for k in range(nd)}
        dl = C.real_daylight(lambda d: hrs[d], start, start + dt.timedelta(days=nd - 1))
        if pi % 2 == 1:
            dl = C.pickle_roundtrip(dl)
        if set(dl.daylight_hours) != set(hrs):
            ctx.violate("C08:budget:daylight-calendar", "the daylight table does not cover exactly the days of the period",
                        {"daylight_period": [str(start), nd], "missing": sorted(str(d) for d in set(hrs) - set(dl.daylight_hours))[:5],
                         "extra": sorted(str(d) for d in set(dl.daylight_hours) - set(hrs))[:5]})
            continue
        for day, h in hrs.items():
            w = ctx.rng.choice([0, 4, 8, 8, 10, 12, 24])
            got = C.impl_budget(True, w, None, daylight_obj=dl, day=day)
            ctx.evaluations += 1
            ctx.count("budget:" + ("daylight-caps" if h < w else "workday-caps"))
            ctx.nontrivial.add(("budget", h < w, h == w, w == 0, day.timetuple().tm_yday in (1, 365, 366), (day.month, day.day) == (2, 29)))
            if got != 60 * min(w, h) or dl.get_daylight(day) != h:
                ctx.violate("C08:budget:not-min-workday-daylight",
                            "crews start the day with minutes != 60*min(workday, daylight) (fractional daylight)",
                            {"budget": [True, w, h], "got": got, "day": str(day)})
        hours.update(hrs)
    ctx.traces += len(cases) + len(hours)


WEATHER_HOUR = 8   # the hour of the day check_weather looks at (Method.HOUR of the unchanged code)


def weather_dates(ctx):
    """every day-of-year incl. 366 of the leap years, and the year boundaries"""
    bnd = []
    for y in (2020, 2024, 2021, 2023):
        for (m, d) in ((12, 30), (12, 31), (1, 1), (1, 2), (2, 28), (3, 1)):
            bnd.append(dt.date(y, m, d))
        if y % 4 == 0:
            bnd.append(dt.date(y, 2, 29))
    allyear = []
    for y in ((2020, 2024) if ctx.quick else (2020, 2024, 2021)):
        d = dt.date(y, 1, 1)
        while d.year == y:
            allyear.append(d)
            d += dt.timedelta(days=1)
    if ctx.quick:
        ctx.rng.shuffle(allyear)
        allyear = allyear[:70]
    return bnd, allyear


def stage_weather(ctx):
    """real WeatherLookup + Infrastructure.set_weather_index + check_weather + deploy_crews.
    The cube makes the days pairwise distinguishable: over the 3x3 cells, day-of-year d (0-based)
    carries the in/out-of-envelope pattern of the binary digits of d+1, so reading any other day's
    weather shows at some cell.  The oracle reads the cube itself at (tm_yday-1)*24 + WEATHER_HOUR of
    the site's nearest cell (own nearest-cell computation, own index arithmetic)."""
    from harness.adapters import crew as C

    bnd, sample = weather_dates(ctx)
    n_cubes = ctx.pick(2, 6)
    for cube in range(n_cubes):
        seed = ctx.rng.randrange(1 << 30)
        lats = [60.0, 20.0, 40.0] if cube % 2 == 0 else [50.0, 10.0, 30.0]
        lons = [-80.0, -120.0, -100.0]
        nlon = len(lons)

        outside = CC.WX_BAD + CC.WX_NAN     # beyond the envelope, or a missing value (NaN in the file)

        def fn(doy, i, j, seed=seed, nlon=nlon, outside=outside):
            inside = ((doy + 1) >> (i * nlon + j)) & 1
            k = seed + doy * 5 + i * 3 + j
            return CC.WX_OK[k % len(CC.WX_OK)] if inside else outside[k % len(outside)]

        def cube_fn(doy, i, j):
            (t, w, p) = fn(doy, i, j)
            return (C.NAN if t is None else t, C.NAN if w is None else w, C.NAN if p is None else p)

        weather = C.real_weather(cube_fn, lats, lons)
        slats, slons = sorted(lats), sorted(lons)
        # one site near every cell (so each day's pattern is fully observed) + a few random ones
        sites = []
        for a, la in enumerate(lats):
            for b, lo in enumerate(lons):
                sites.append(C.LocSite("w%d%d" % (a, b), 5, la + ctx.rng.uniform(-4, 4), lo + ctx.rng.uniform(-4, 4)))
        for k in range(ctx.pick(2, 6)):
            sites.append(C.LocSite("r%d" % k, 5, ctx.rng.uniform(5, 75), ctx.rng.uniform(-125, -75)))
        C.place_sites(sites, weather)
        days = list(bnd) + (sample if cube == 0 or not ctx.quick else sample[:15])
        for cls in ("method", "component"):
            # what a pool worker receives is the unpickled copy of the lookup (WeatherLookup.__reduce__)
            wobj = weather if cls == "method" else C.pickle_roundtrip(weather)
            for day in (days if cls == "method" else days[:: ctx.pick(3, 2)] + bnd):
                res, wp = C.impl_weather_day(cls, sites, wobj, day)
                queued, done = C.requeue_classes(wp, day)
                # --- independent reading of the cube: index = (day of year - 1) * 24 + hour ---------
                hour_index = (day.timetuple().tm_yday - 1) * 24 + WEATHER_HOUR
                leap_last = day.timetuple().tm_yday == 366
                for s_ in sites:
                    la, lo = s_.get_loc()
                    i_sorted = min(range(len(slats)), key=lambda a: abs(slats[a] - la))
                    j_sorted = min(range(len(slons)), key=lambda a: abs(slons[a] - lo))
                    i, j = lats.index(slats[i_sorted]), lons.index(slons[j_sorted])
                    (t, w, p) = fn(day.timetuple().tm_yday - 1, i, j)
                    cube_vals = (float(weather.temps[hour_index, i, j]), float(weather.winds[hour_index, i, j]),
                                 float(weather.precip[hour_index, i, j]))
                    want = (C.rt_temp(t), C.rt_wind(w), C.rt_precip(p))
                    if any(not (a == b or (a != a and b != b)) for a, b in zip(cube_vals, want)):
                        raise core.InfraError("synthetic weather cube does not hold the generated value at %s" % day)
                    e = C.ENV
                    # the oracle reads the cube: a missing value (NaN) in any of the three is inside no envelope
                    missing = any(x != x for x in cube_vals)
                    ok = (not missing) and e["temp"][0] <= t <= e["temp"][1] and e["wind"][0] <= w <= e["wind"][1] \
                        and e["precip"][0] <= p <= e["precip"][1]
                    if missing:
                        ctx.count("weather:missing-value-at-cell")
                    visited, rep = res[s_.get_id()]
                    ctx.evaluations += 1
                    ctx.count("weather:" + ("workable" if ok else "unworkable"))
                    if leap_last:
                        ctx.count("weather:day-366-of-leap-year")
                    ctx.nontrivial.add(("weather", cls, ok, t is None or (t < e["temp"][0]) or (t > e["temp"][1]),
                                        w is None or w > e["wind"][1], p is None or p > e["precip"][1], missing, leap_last,
                                        day.month in (1, 12), (day.month, day.day) == (2, 29)))
                    inp = {"weather": {"cls": cls, "lats": lats, "lons": lons, "seed": seed, "site_loc": [la, lo],
                                       "day": str(day), "cell": [i, j], "hour_index": hour_index, "values": [t, w, p],
                                       "visited": visited, "report": list(rep)}}
                    if visited and not ok:
                        ctx.violate("C08:weather:visited-outside-envelope" + (":day-366" if leap_last else ""),
                                    "site visited on a day whose weather at its nearest cell is outside the envelope", inp)
                    if ok and not visited:
                        ctx.disagree("crew.weather/" + cls, inp, "workable", "not visited")
                    if not ok and (rep != (0, 0, 0, 0, 0) or queued.get(s_.get_id()) != [2] or s_.get_id() in done):
                        ctx.violate("C08:weather:unworkable-request-not-requeued", "unworkable site's report changed or request not re-queued once", inp)
        ctx.traces += 1


def replay_weather(ctx, w):
    from harness.adapters import crew as C

    seed, lats, lons = w["seed"], w["lats"], w["lons"]
    nlon = len(lons)

    outside = CC.WX_BAD + CC.WX_NAN

    def fn(doy, i, j):
        inside = ((doy + 1) >> (i * nlon + j)) & 1
        k = seed + doy * 5 + i * 3 + j
        return CC.WX_OK[k % len(CC.WX_OK)] if inside else outside[k % len(outside)]

    weather = C.real_weather(lambda d, i, j: tuple(C.NAN if x is None else x for x in fn(d, i, j)), lats, lons)
    site = C.LocSite("w", 5, w["site_loc"][0], w["site_loc"][1])
    C.place_sites([site], weather)
    day = dt.date(*[int(x) for x in w["day"].split("-")])
    res, wp = C.impl_weather_day(w["cls"], [site], weather, day)
    (t, wi, p) = fn(day.timetuple().tm_yday - 1, w["cell"][0], w["cell"][1])
    e = C.ENV
    ok = None not in (t, wi, p) and e["temp"][0] <= t <= e["temp"][1] and e["wind"][0] <= wi <= e["wind"][1] \
        and e["precip"][0] <= p <= e["precip"][1]
    visited, rep = res["w"]
    print("day", day, "cell", w["cell"], "values at (tm_yday-1)*24+%d:" % WEATHER_HOUR, (t, wi, p), "inside envelope:", ok,
          "| visited:", visited, "report:", rep)
    if visited and not ok:
        ctx.violate("C08:weather:visited-outside-envelope", "site visited on a day whose weather is outside the envelope", {"weather": w})
    if not ok and rep != (0, 0, 0, 0, 0):
        ctx.violate("C08:weather:unworkable-request-not-requeued", "unworkable site's report changed", {"weather": w})


def wholerun_oracle(ctx):
    """optional stage: the same clauses on wrapper traces of whole simulations"""
    if not os.path.exists(os.path.join(core.VERIF, "harness", "wholerun.py")):
        ctx.note("whole-run stage skipped: harness/wholerun.py absent")
        return
    from harness.props import _crew_wholerun as W

    W.run_c08(ctx)


def run(ctx):
    ctx.rule = ("survey step: every (R<=24,S<=8,T<=4,P<=S) x deployment type x weather outcome, base class and "
                "component-level class (exhaustive; component class subsampled by seed in quick); multi-day: all "
                "two-day histories with S<=3,R<=5,T<=1 (subsampled in quick) + random histories of <=9 days incl. surveys "
                "needing 3+ crew-days, every step also run with the stale time_surveyed_current_day a resumed report "
                "holds; campaigns: 3..12 consecutive real deploy_crews days on the same planners (reports carried over by "
                "the real code, plan order from the real schedule update), each day also run through the model; crew days: "
                "random work plans in three sizes x 4 method classes x cost types, crews 0..5, partial reports, exact-fit "
                "surveys, weather triples inside / on / outside each envelope bound, a third of the mobile days on methods "
                "constructed for a portfolio whose LDAR-Sim crew estimate is below / equal to / above the configured "
                "crew_count (shortage), follow-up and crew_count-0 (estimate) methods; crew count: real constructors x 7 "
                "portfolios x crew_count 0..20 x follow-up x stationary; fractional: daylight-sensitive days with "
                "daylight hours p/100, p/7, p/13 as exact Fractions and non-empty plans, the model fed in units of 1/q "
                "minute; budget: workday x daylight in 0..24 "
                "and quarter-hour daylight through the real daylight calculator; weather: real lookup cubes with unsorted "
                "axes whose days are pairwise distinguishable, a site near every cell + random sites, year boundaries and 29 Feb "
                "of 2020/2021/2023/2024 always, every day-of-year incl. 366 of the leap years (sampled in quick). non-trivial = distinct (stage, class, branch/outcome shape) keys")
    from harness.props.c10 import regenerate_tables

    regenerate_tables(ctx)
    core.lean_stage(ctx, MODULE, FILE, drivers=["drv_crew"])
    from harness.props import _tie
    _tie.crew_tie(ctx)  # layer 3: Method.survey_site, translated from the current source, is Crew.surveyStep/applyStep
    _tie.estimate_tie(ctx)  # layer 3: crews of a method (= Crew.methodCrews) and the daily capacity estimate, translated over ℚ
    stage_steps(ctx)
    stage_multiday(ctx)
    stage_crew_count(ctx)
    stage_days(ctx)
    stage_campaigns(ctx)
    stage_history(ctx)
    stage_shared_inputs(ctx)
    stage_travel_shapes(ctx)
    stage_fractional(ctx)
    stage_budget(ctx)
    stage_weather(ctx)
    wholerun_oracle(ctx)
    hyp_ok = ctx.counts.get("hyp:step-ok", 0)
    hyp_all = hyp_ok + ctx.counts.get("hyp:step-outside(stationary,P>0)", 0)
    rq_ok = ctx.counts.get("hyp:ReqOk-ok", 0)
    rq_all = rq_ok + ctx.counts.get("hyp:ReqOk-miss", 0)
    ctx.extra["hypothesis_hit_rate"] = {
        "StepOk": round(hyp_ok / max(hyp_all, 1), 4),
        "ReqOk": round(rq_ok / max(rq_all, 1), 4),
        "ReqOk_evaluated_on": "%d requests: generated day cases, campaign days (reports left by the real code), "
                              "fractional-daylight days, whole-run survey events" % rq_all}
    ctx.assumptions.append("minutes are integers in the day-loop theorems; fractional daylight covered by the ordered-field step theorems and the quarter-hour oracle")
    ctx.assumptions.append("sampled travel time (random.choice in _get_travel_time) is an input of the model")


def replay(ctx, data):
    from harness.adapters import crew as C

    inp = data.get("input", {})
    if "campaign" in inp:
        camp = inp["campaign"]
        camp = dict(camp, sites=[tuple(x) for x in camp["sites"]])
        for d, (case, r) in enumerate(C.impl_campaign(camp)):
            print("day %d impl :" % d, C.impl_day_reply(case, r))
            print("day %d model:" % d, core.LeanDriver("drv_crew").run([C.day_line(case)])[0])
            n0 = len(ctx.violations)
            oracle_day(ctx, case, r, check_requeue=False)
            for v in ctx.violations[n0:]:
                v["signature"] = v["signature"].replace("C08:day:", "C08:campaign:") + " (day %d)" % d
    elif "step" in inp:
        t = tuple(inp["step"])
        t = t if len(t) > 6 else t + (0,)
        cls = inp.get("cls", "method")
        res = C.impl_step(*t[:6], cls=cls, today0=t[6], unworkable_kind=inp.get("unworkable_kind", 0))
        print("impl :", C.impl_step_reply(res))
        print("model:", core.LeanDriver("drv_crew").run([C.step_line(*t[:6], today0=t[6])])[0])
        oracle_step(ctx, t, res, cls)
    elif "multiday" in inp:
        S, st, days = inp["multiday"]
        c = (S, st, [tuple(d) for d in days])
        steps = []
        res = C.impl_multiday(*c, cls=inp.get("cls", "method"), steps=steps)
        print("impl :", C.impl_multiday_reply(res))
        print("model:", core.LeanDriver("drv_crew").run([C.multiday_line(*c)])[0])
        oracle_multiday(ctx, c, res, steps, inp.get("cls", "method"))
    elif "fractional_day" in inp:
        from fractions import Fraction

        c = list(CC.case_from_json(inp["fractional_day"]))
        c[4] = Fraction(c[4])
        c = tuple(c)
        dl = (inp["daylight"][0], Fraction(inp["daylight"][1]))
        r = C.impl_day(c, daylight=dl)
        print("impl (x denominator):", C.impl_day_reply(c, r, scale=Fraction(c[4]).denominator))
        n0 = len(ctx.violations)
        oracle_day(ctx, c, r, check_requeue=False)
        for v in ctx.violations[n0:]:
            v["signature"] = v["signature"].replace("C08:day:", "C08:day-fractional:")
    elif "day" in inp:
        c = CC.case_from_json(inp["day"])
        r = C.impl_day(c)
        print("impl :", C.impl_day_reply(c, r))
        print("model:", core.LeanDriver("drv_crew").run([C.day_line(c)])[0])
        oracle_day(ctx, c, r)
    elif "budget" in inp:
        cd, w, d = inp["budget"]
        got = C.impl_budget(cd, w, d)
        print("impl budget:", got, "expected", 60 * (min(w, d) if cd else w))
        if got != 60 * (min(w, d) if cd else w):
            ctx.violate("C08:budget:not-min-workday-daylight", "budget", inp)
    elif "history" in inp:
        from harness.props import _crew_history as H

        H.replay(ctx, "C08", inp)
    elif "crew_count" in inp:
        c = inp["crew_count"]
        n, ids = C.impl_crews(c["cls"], c["stationary"], c["follow_up"], c["configured"], c["portfolio"])
        print("configured crew_count", c["configured"], "| LDAR-Sim estimate", C.crew_estimate(c["portfolio"]),
              "| method built with", n, "crews, ids", ids, "| model:",
              core.LeanDriver("drv_crew").run([C.crews_line(c["stationary"], c["follow_up"], c["configured"], c["portfolio"])])[0])
        if not c["stationary"] and c["configured"] > 0 and (n != c["configured"] or ids != list(range(c["configured"]))):
            ctx.violate("C08:crews:configured-crew-count-not-used", "configured crew_count not used", inp)
        if c["stationary"] and n != 1:
            ctx.violate("C08:crews:stationary-not-one-crew", "stationary", inp)
    elif "weather" in inp:
        replay_weather(ctx, inp["weather"])
    elif "wholerun" in inp:
        from harness.props import _crew_wholerun as W

        W.replay_c08(ctx, inp)
    else:
        print("replay: broken obligation / correspondence:", data.get("broken_obligations"),
              data.get("correspondence_disagreements"))
        return 1
    for v in ctx.violations:
        print("oracle:", v["signature"], "-", v["what"])
    return 1 if ctx.violations else 0
