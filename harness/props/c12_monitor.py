"""Observation-only effect monitor for C12, installed in the whole-run worker through the job's
`pre_run_hook` ("harness.props.c12_monitor:install").  Nothing in /repo is edited; the wrappers call the
original functions with unchanged arguments and only look at process-wide state.

Per (program, simulation) task it records into <workdir>/monitor.d/<prog>__<sim>.json
  pid, seq               process and position of the task inside that process
  dirty_at_entry         module/class-level containers of src modules whose content differs from the content
                         right after import (i.e. something that ran earlier in this process changed them)
  changed                containers whose content changed while this task ran
  stdlib_used            the state of the stdlib `random` generator changed while the task ran
  np_draw_before_seed    the numpy global generator was advanced between the start of the task and the
                         first np.random.seed(...) of the task (or no seed call happened at all and the state moved)
  seed_calls             number of np.random.seed calls during the task
  none_seed_calls        how many of them had the argument None (re-seed from OS entropy; must be 0 with pre-seeding on)
  other_args_mutated     positions of the other simulate() arguments (daylight, weather, parameter dicts, ...) whose pickle changed
  infra_arg_mutated      the pickled `infrastructure` argument of simulate() (the object shared by all programs of a
                         simulation in sequential mode) differs before/after the task
and once per worker process <workdir>/monitor.d/_setup_<pid>.json: containers changed between import and
the first task (the set-up phase: infrastructure / emission generation).
"""
from __future__ import annotations

import functools
import hashlib
import json
import os
import random as _stdlib_random
import sys
import time

STATE = {"base": None, "seq": 0, "setup_done": False, "dir": None}


def _digest(obj):
    try:
        if isinstance(obj, dict):
            r = repr(list(obj.items()))
        elif isinstance(obj, (set, frozenset)):
            r = repr(sorted(map(repr, obj)))
        else:
            r = repr(obj)
    except Exception as e:  # an object whose repr fails is reported, not skipped
        r = f"<repr failed {type(e).__name__}>"
    return hashlib.sha1(r.encode("utf-8", "replace")).hexdigest(), len(obj) if hasattr(obj, "__len__") else -1


def _src_modules(src):
    for name, mod in sorted(sys.modules.items()):
        f = getattr(mod, "__file__", None)
        if f and os.path.abspath(f).startswith(src + os.sep):
            yield name, mod


def snapshot(src):
    """name -> (digest, len) of every list/dict/set bound at module level or in a class body of a src module"""
    out, seen = {}, set()

    def visit_class(modname, cls, qual):
        for k, v in list(vars(cls).items()):
            if k.startswith("__") and k.endswith("__"):
                continue
            if isinstance(v, (list, dict, set)) and id(v) not in seen:
                seen.add(id(v))
                out[f"{modname}:{qual}.{k}"] = _digest(v)
            elif isinstance(v, type) and v.__module__ == modname and v.__qualname__.startswith(cls.__qualname__ + "."):
                visit_class(modname, v, v.__qualname__)

    mods = list(_src_modules(src))
    # first pass: defining modules (so that `from x import LIST` does not claim the name)
    for modname, mod in mods:
        for k, v in list(vars(mod).items()):
            if isinstance(v, type) and v.__module__ == modname:
                visit_class(modname, v, v.__qualname__)
    owners = {}
    for modname, mod in mods:
        for k, v in list(vars(mod).items()):
            if k.startswith("__"):
                continue
            if isinstance(v, (list, dict, set)):
                owners.setdefault(id(v), []).append((modname, k, v))
    for _, lst in owners.items():
        # the defining module is the one that other holders import from; prefer `constants.*`, else first
        lst.sort(key=lambda t: (0 if t[0].startswith("constants") else 1, t[0]))
        modname, k, v = lst[0]
        if id(v) not in seen:
            seen.add(id(v))
            out[f"{modname}:{k}"] = _digest(v)
    return out


def _diff(a, b):
    return sorted(k for k in set(a) | set(b) if a.get(k) != b.get(k))


def _np_state_digest(np):
    st = np.random.get_state()
    return hashlib.sha1(repr((st[0], st[1].tobytes(), st[2], st[3], st[4])).encode()).hexdigest()


def _infra_digest(infra):
    """digest of the pickled `infrastructure` argument of simulate(): every program of a simulation gets the
    SAME in-memory object in sequential mode and must leave it untouched (it works on a deep copy)"""
    try:
        import io
        import pickle

        import numpy as _np

        class _P(pickle.Pickler):
            # random generators reachable from the object (a frozen scipy distribution of a dist-type emissions source
            # refers to numpy's GLOBAL RandomState, whose state moves with every draw of the task) are not part of the
            # object's own state: the generator states are watched separately
            def persistent_id(self, obj):
                if isinstance(obj, (_np.random.RandomState, _np.random.Generator, _np.random.BitGenerator)):
                    return "rng"
                return None

        buf = io.BytesIO()
        _P(buf, protocol=4).dump(infra)
        return hashlib.sha1(buf.getvalue()).hexdigest()
    except Exception:
        return None


def install(job):
    from harness import shim
    import numpy as np
    import simulation.simulation_helpers as sh
    import simulation.simulation_manager as sm

    src = os.path.abspath(shim.REPO_SRC)
    root = os.path.dirname(job["trace_path"])
    STATE["dir"] = os.path.join(root, "monitor.d")
    os.makedirs(STATE["dir"], exist_ok=True)
    STATE["base"] = snapshot(src)
    task = {"first_seed_state": None, "seed_calls": 0, "none_seed_calls": 0, "active": False}

    orig_seed = np.random.seed

    def seed(*a, **k):
        if task["active"]:
            if task["seed_calls"] == 0:
                task["first_seed_state"] = _np_state_digest(np)
            task["seed_calls"] += 1
            arg = a[0] if a else k.get("seed")
            if arg is None:
                task["none_seed_calls"] += 1   # np.random.seed(None): fresh OS entropy
        return orig_seed(*a, **k)

    np.random.seed = seed

    orig_sim = sm.simulate

    @functools.wraps(orig_sim)
    def simulate(*args, **kwargs):
        prog, sim = args[3], args[2]
        if not STATE["setup_done"]:
            STATE["setup_done"] = True
            s0 = snapshot(src)
            with open(os.path.join(STATE["dir"], f"_setup_{os.getpid()}.json"), "w") as fh:
                json.dump({"pid": os.getpid(), "changed_in_setup": _diff(STATE["base"], s0)}, fh)
        before = snapshot(src)
        infra0 = _infra_digest(args[9] if len(args) > 9 else kwargs.get("infrastructure"))
        other0 = [_infra_digest(a) if i not in (9, 13) else None for i, a in enumerate(args)]
        std0 = hashlib.sha1(repr(_stdlib_random.getstate()).encode()).hexdigest()
        np0 = _np_state_digest(np)
        task.update(first_seed_state=None, seed_calls=0, none_seed_calls=0, active=True)
        seq = STATE["seq"]
        STATE["seq"] += 1
        t0 = time.time()
        try:
            return orig_sim(*args, **kwargs)
        finally:
            task["active"] = False
            after = snapshot(src)
            infra1 = _infra_digest(args[9] if len(args) > 9 else kwargs.get("infrastructure"))
            other1 = [_infra_digest(a) if i not in (9, 13) else None for i, a in enumerate(args)]
            std1 = hashlib.sha1(repr(_stdlib_random.getstate()).encode()).hexdigest()
            np1 = _np_state_digest(np)
            if task["seed_calls"] == 0:
                pre = np0 != np1
            else:
                pre = task["first_seed_state"] != np0
            rec = {"prog": prog, "sim": sim, "pid": os.getpid(), "seq": seq, "t0": t0,
                   "dirty_at_entry": _diff(STATE["base"], before), "changed": _diff(before, after),
                   "stdlib_used": std0 != std1, "np_draw_before_seed": bool(pre),
                   "seed_calls": task["seed_calls"], "none_seed_calls": task["none_seed_calls"],
                   "infra_arg_mutated": (infra0 is not None and infra1 is not None and infra0 != infra1),
                   "infra_digest_ok": infra0 is not None and infra1 is not None,
                   # every other argument of simulate() (daylight, weather, parameter dicts, seed series, measured-df;
                   # the lock excluded) is shared by all programs in sequential mode as well
                   "other_args_mutated": [i for i, (a, b) in enumerate(zip(other0, other1)) if a is not None and b is not None and a != b]}
            with open(os.path.join(STATE["dir"], f"{prog}__{sim}.json"), "w") as fh:
                json.dump(rec, fh)

    sh.simulate = simulate
    sm.simulate = simulate
