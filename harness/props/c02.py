"""C02 — mitigated = baseline emitted − program emitted, leak by leak.

Lean: Props/C02.lean (C02_calendar_days, C02_partial, C02_totals, C02_counterexample).
Tie: real emission classes driven through the real Component/Source vs drv_emission, on the
structured-exhaustive + random case set; the end date handed to calc_mitigated is read from
ldar_sim.py's call site.  Oracle: the three clauses of the property evaluated on the implementation's
own summaries of the program run and the no-event run of the same emission.
"""
from harness import core
from harness.props import _emission_common as EC

MANIFEST_ENTRY = {
    "text": "Lean theorems C02_calendar_days / C02_partial / C02_totals prove the leak-wise identity emitted + mitigated = baseline emitted, mitigated >= 0 and != 0 only after a program repair, for every start, duration, delay, tag schedule and horizon (induction over days on an invariant of the emission state machine); C02_counterexample proves the full statement false for intermittent sources (known finding F4). The model is tied to the real RepairableEmission/IntermittentRepairableEmission/Component/Source classes by differential correspondence on a structured-exhaustive + random case set on every run, and the property's clauses are evaluated directly on the implementation's program and no-LDAR summaries.",
    "design_ref": "DESIGN.md 5.2, 4.1",
    "note": "trusted: Lean kernel + propext/Classical.choice/Quot.sound; the hand-written model (tied by sampled correspondence, not proof); harness adapters; volumes compared as integer day counts (rate 1.0, x86.4 exact division checked); float rates, CSV formatting and the summary aggregation (C14) outside this check",
    "technique": "Lean 4 invariant proof over the emission state machine + differential correspondence with the real classes + direct oracle",
}

MODULE = "LdarModel.Props.C02"
FILE = "LdarModel/Props/C02.lean"


def oracle_case(ctx, case, res, base):
    (start, nrd, delay, rep, inter, ad, idur, n, evs) = case
    if not rep:
        return
    inp = {"case": list(case), "program": res, "baseline": base}
    if res["mitDays"] < 0:
        ctx.violate("C02:negative-mitigation", "mitigated volume is negative", inp)
    if res["mitDays"] != 0 and not (res["status"] == "repaired" and res["by"].startswith("c")):
        ctx.violate("C02:mitigation-without-program-repair",
                    "non-zero mitigation for a leak not ended by a program repair", inp)
    cal_ok = res["activeDays"] + res["mitDays"] == base["activeDays"]
    vol_ok = res["emitDays"] + res["mitDays"] == base["emitDays"]
    if inter:
        if not cal_ok:
            ctx.violate("C02:identity:intermittent:calendar-days",
                        "intermittent leak: days active + days mitigated != baseline days active", inp)
        elif not vol_ok:
            ctx.violate("C02:identity:intermittent-source",
                        "intermittent repairable source: emitted + mitigated != baseline emitted "
                        "(mitigation counts calendar days, emission counts emitting days)", inp)
    elif not vol_ok:
        if start + nrd >= n:
            sub = "natural-end-on-or-after-last-day"
        elif res["activeDays"] > base["activeDays"]:
            sub = "outlived-natural-end"
        else:
            sub = "other"
        ctx.violate("C02:identity:persistent:" + sub,
                    "persistent leak: emitted + mitigated != baseline emitted", inp)


def wholerun_record(ctx, res, rec):
    """the same clauses on a record of a whole simulation, joined with the baseline program's record"""
    if not rec["repairable"]:
        return
    base = EC.base_fields(rec)
    inp = {"cfg": res.cfg, "prog": rec["prog"], "sim": rec["sim"], "key": list(rec["key"]), "row": rec["row"],
           "baseline_row": rec["base"]}
    if base is None:
        ctx.violate("C02:wholerun:no-baseline-twin", "program emission has no twin in the baseline program's records", inp)
        return
    if rec["mitDays"] < 0:
        ctx.violate("C02:negative-mitigation", "mitigated volume is negative", inp)
    if rec["mitDays"] != 0 and not (rec["status"] == "repaired" and rec["by"] not in ("natural", "", "None")):
        ctx.violate("C02:mitigation-without-program-repair", "non-zero mitigation without program repair", inp)
    cal_ok = rec["activeDays"] + rec["mitDays"] == base["activeDays"]
    vol_ok = rec["emitDays"] + rec["mitDays"] == base["emitDays"]
    if rec["intermittent"]:
        if not cal_ok:
            ctx.violate("C02:identity:intermittent:calendar-days", "intermittent leak: calendar-day identity fails", inp)
        elif not vol_ok:
            ctx.violate("C02:identity:intermittent-source",
                        "intermittent repairable source: emitted + mitigated != baseline emitted", inp)
    elif not vol_ok:
        ctx.violate("C02:identity:persistent:whole-run", "persistent leak: emitted + mitigated != baseline emitted", inp)
    ctx.count("wholerun_oracle_evaluated")


def wholerun_totals(ctx, res, recs):
    """program totals: the Emissions Summary rows must carry the sums of the program's own records, and
    (persistent repairable sources) total mitigated = baseline emitted - program emitted over repairable leaks"""
    rows = res.summary("Emissions Summary") or []
    for row in rows:
        prog, sim = row["Program Name"], int(row["Simulation"])
        mine = [r for r in recs if r["prog"] == prog and r["sim"] == sim]
        tot_mit = sum(float(r["row"]["Mitigated Emissions (Kg Methane)"]) for r in mine)
        tot_em = sum(float(r["row"]['"True" Volume Emitted (Kg Methane)']) for r in mine)
        inp = {"cfg": res.cfg, "prog": prog, "sim": sim, "summary_row": row}
        if abs(float(row['Total "True" Mitigated Emissions (Kg Methane)']) - tot_mit) > 1e-6 * max(1.0, tot_mit):
            ctx.violate("C02:totals:summary-mitigated", "summary total mitigated != sum over the program's records", inp)
        if abs(float(row['Total "True" Emissions (Kg Methane)']) - tot_em) > 1e-6 * max(1.0, tot_em):
            ctx.violate("C02:totals:summary-emitted", "summary total emitted != sum over the program's records", inp)
        if not any(r["intermittent"] for r in mine):
            rep = [r for r in mine if r["repairable"] and r["base"] is not None]
            lhs = sum(r["mitDays"] * r["rate"] for r in rep)
            rhs = sum((EC.base_fields(r)["emitDays"] - r["emitDays"]) * r["rate"] for r in rep)
            if lhs != rhs:
                ctx.violate("C02:totals:mitigated!=baseline-program", "program total mitigated != baseline emitted - program emitted", inp)
        ctx.count("wholerun_totals_checked")


def run(ctx):
    ctx.rule = ("cases = (start, nrd, delay, kind, N, tag events); structured-exhaustive core over "
                "N<=8,start in -7..N,nrd<=6,delay<=3,one tag on any day (subsampled by seed in quick) + "
                "random small (<=3 tags, all 8 kinds) + random large; non-trivial = emission becomes "
                "active; distinct by (kind, pre-period, start=-nrd, end status, ender, multi-tag, nrd, "
                "delay, N, active days)")
    core.lean_stage(ctx, MODULE, FILE, drivers=["drv_emission"])
    cases = EC.build_cases(ctx)
    results = EC.correspond(ctx, cases)
    base_cache = {}
    for (c, res, ml, il) in results:
        if not c[3]:
            continue
        bkey = c[:8]
        if bkey not in base_cache:
            base_cache[bkey] = EC.impl_result(EC.without_events(c))
        oracle_case(ctx, c, res, base_cache[bkey])
        ctx.count("oracle_evaluated")
    for (c, res, ml, il) in results[:3]:
        ctx.sample({"case": list(c), "impl": il.split(" | ")[0]})
    EC.shared_component_stage(ctx, lambda ctx, case, res, base, w: oracle_case(ctx, case, res, base))
    EC.wholerun_stage(ctx, 2, 12, wholerun_record, per_result=wholerun_totals)
    ctx.assumptions.append("volumes are day counts x rate x 86.4; rates on the exact grid (rate 1.0)")


def replay(ctx, data):
    inp = data.get("input", {})
    if "case" not in inp:
        print("replay: broken obligation / correspondence:", data.get("broken_obligations"), data.get("correspondence_disagreements"))
        return 1
    c = inp["case"]
    case = tuple(c[:8]) + ([tuple(e) for e in c[8]],)
    res = EC.impl_result(case)
    base = EC.impl_result(EC.without_events(case))
    oracle_case(ctx, case, res, base)
    print("program :", res)
    print("baseline:", base)
    for v in ctx.violations:
        print("oracle:", v["signature"], "-", v["what"])
    return 1 if ctx.violations else 0
