"""C02 — mitigated = baseline emitted − program emitted, leak by leak.

Lean: Props/C02.lean (C02_calendar_days, C02_partial, C02_totals, C02_totals_weighted, C02_counterexample),
Props/C03.lean (C02_totals_all: all leaks of a program, non-repairables via C03_nonrepairable).
Tie: real emission classes driven through the real Component/Source vs drv_emission, on the
structured-exhaustive + random case set; the end date handed to calc_mitigated is read from
ldar_sim.py's call site.  Oracle: the three clauses of the property evaluated on the implementation's
own summaries of the program run and the no-event run of the same emission.
"""
from harness import core
from harness.props import _emission_common as EC

MANIFEST_ENTRY = {
    "text": "Lean theorems C02_calendar_days / C02_partial prove the leak-wise identity emitted + mitigated = baseline emitted, mitigated >= 0 and != 0 only after a program repair, for every start, duration, delay, tag schedule and horizon (induction over days on an invariant of the emission state machine); program totals: C02_totals (day counts), C02_totals_weighted (rate-weighted volumes, each leak with its own rate) and C02_totals_all (Props/C03.lean: all leaks of a program, non-repairable ones via C03_nonrepairable); C02_counterexample proves the full statement false for intermittent sources (known finding F4: mitigation counts calendar days) and C02_counterexample_final_day exhibits the second mechanism (F4c: the day an intermittent emission ends is never counted as emitting). The model is tied to the real RepairableEmission/IntermittentRepairableEmission/Component/Source classes by differential correspondence on a structured-exhaustive (persistent and intermittent kinds, one/two tags, reporting delays {0,2}, reachable starts only) + random case set on every run, and the property's clauses are evaluated directly on the implementation's program and no-LDAR summaries; for intermittent leaks the emitted days of both runs are recomputed from the on/off pattern alone and the known-finding signatures are emitted only when the discrepancy is exactly the non-emitting mitigated days plus/minus the uncounted final days - anything else is a violation (C02:identity:intermittent:other). Hardening stages on every run: same-process history (colliding ids, both orders), several emissions from one shared delay/cost list and coverage dicts (inputs deep-equal afterwards), deep copies and pickle round trips of real Components (a program on one copy must not leak into the next; pinned table of copy hooks / class-level containers as an obligation), the same cases under eight first simulated days (New Year, Feb 29, day-of-year 366, a start on Dec 31, one year later; model side: run_shift / C04_period_shift), marker-like method names (finding C02-natural: a method named `natural` is never credited), whole runs over boundary periods (not ending Dec 31, straddling New Year and Feb 29, 1- and 2-day periods), two simulations, process pool with the baseline program last; exceptions of the code under test and call-site shapes the adapter cannot read become broken obligations, never harness errors. Layer 3 (every run): the methods of the four emission classes are translated from the current source to Lean (harness/extract/py2lean.py, emission_src.py -> Generated/EmissionSrc.lean) and Props/EmissionTie.lean + EmissionOnSource.lean are re-checked: each translated method equals the model's function through the abstraction, iterating them is Emission.run (run_tie), and the C02/C03/C04 statements hold of the translated code; a method outside the translated subset is a note, a failing tie theorem a broken obligation.",
    "design_ref": "DESIGN.md 5.2, 4.1",
    "note": "trusted: Lean kernel + propext/Classical.choice/Quot.sound; the hand-written model (tied by sampled correspondence, not proof); harness adapters; volumes compared as integer day counts (rate 1.0, x86.4 exact division checked); float rates, CSV formatting and the summary aggregation (C14) outside this check",
    "technique": "Lean 4 invariant proof over the emission state machine + differential correspondence with the real classes + direct oracle",
}

MODULE = "LdarModel.Props.C02"
FILE = "LdarModel/Props/C02.lean"


F4_SIG = "C02:identity:intermittent-source"
F4C_SIG = "C02:identity:intermittent:final-day-not-counted"


def intermittent_identity(ctx, ad, idur, prog, base, inp, where):
    """oracle for an intermittent repairable leak.  `prog` / `base` carry activeDays, emitDays, mitDays,
    status of the program run and of the no-LDAR run.

    The emitted days of both runs are recomputed from the on/off pattern alone (closed form of
    IntermittencyMixin.update incl. its quirk that the update which ends an emission neither counts as
    an emitting day nor advances the pattern).  With A_p / A_b the days active, the discrepancy
    D = emitted + mitigated - baseline emitted must then be exactly
        (# mitigated calendar days A_p+1..A_b that are non-emitting days of the pattern)      -> F4
      + [baseline ended and its final day is an emitting day of the pattern]                   -> F4c
      - [program run ended and its final day is an emitting day of the pattern]                -> F4c
    (enumerated day by day, not derived from the two counts).  Only then is the failure attributed to
    the known mechanisms; anything else is `C02:identity:intermittent:other`."""
    ended_p = prog["status"] in ("repaired", "expired")
    ended_b = base["status"] in ("repaired", "expired")
    exp_p = EC.expected_emit_days(True, ad, idur, prog["activeDays"], prog["status"])
    exp_b = EC.expected_emit_days(True, ad, idur, base["activeDays"], base["status"])
    inp = dict(inp, pattern={"on": ad, "off": idur, "expected_emitted_program": exp_p, "expected_emitted_baseline": exp_b})
    ctx.count(where + "intermittent_pattern_oracle_evaluated")
    if prog["emitDays"] != exp_p or base["emitDays"] != exp_b:
        ctx.violate("C02:identity:intermittent:other",
                    "intermittent leak: emitted days differ from the on/off pattern of the source "
                    "(program %s vs %s expected, baseline %s vs %s expected)"
                    % (prog["emitDays"], exp_p, base["emitDays"], exp_b), inp)
        return
    cal_ok = prog["activeDays"] + prog["mitDays"] == base["activeDays"]
    vol_ok = prog["emitDays"] + prog["mitDays"] == base["emitDays"]
    if vol_ok:
        return  # the property holds for this leak (no calendar-day requirement is part of it)
    if not cal_ok:
        # the known mechanisms leave the calendar-day identity intact (C02_calendar_days)
        ctx.violate("C02:identity:intermittent:calendar-days",
                    "intermittent leak: emitted + mitigated != baseline emitted and days active + days "
                    "mitigated != baseline days active", inp)
        return
    a_p, a_b = prog["activeDays"], base["activeDays"]
    d = prog["emitDays"] + prog["mitDays"] - base["emitDays"]
    nonemit = sum(1 for i in range(a_p + 1, a_b + 1) if not EC.pattern_on(i, ad, idur))
    q_b = 1 if ended_b and a_b >= 1 and EC.pattern_on(a_b, ad, idur) else 0
    q_p = 1 if ended_p and a_p >= 1 and EC.pattern_on(a_p, ad, idur) else 0
    inp = dict(inp, discrepancy={"D": d, "non_emitting_mitigated_days": nonemit,
                                 "baseline_final_day_uncounted": q_b, "program_final_day_uncounted": q_p})
    if d != nonemit + q_b - q_p or (nonemit == 0 and q_b == q_p):
        ctx.violate("C02:identity:intermittent:other",
                    "intermittent leak: emitted + mitigated - baseline emitted = %d is not explained by the "
                    "non-emitting mitigated days (%d) and the uncounted final days (+%d -%d)" % (d, nonemit, q_b, q_p), inp)
        return
    if nonemit > 0:
        ctx.violate(F4_SIG,
                    "intermittent repairable source: emitted + mitigated != baseline emitted "
                    "(mitigation counts calendar days, emission counts emitting days)", inp)
        ctx.count(where + "F4:non-emitting-mitigated-days")
    if q_b != q_p:
        ctx.violate(F4C_SIG,
                    "intermittent repairable source: the day on which an emission ends is never counted as an "
                    "emitting day (persistent emissions count it), so emitted + mitigated is off by one day "
                    "against the baseline whenever only one of the two runs has ended on an emitting day", inp)
        ctx.count(where + "F4c:final-day-not-counted")
    if d < 0:
        ctx.count(where + "F4/F4c:discrepancy<0")


def oracle_case(ctx, case, res, base):
    (start, nrd, delay, rep, inter, ad, idur, n, evs) = case
    if not rep:
        return
    inp = {"case": list(case), "program": res, "baseline": base}
    if res["mitDays"] < 0:
        ctx.violate("C02:negative-mitigation", "mitigated volume is negative", inp)
    if res["mitDays"] != 0 and not (res["status"] == "repaired" and res["by"].startswith("c")):
        ctx.violate("C02:mitigation-without-program-repair",
                    "non-zero mitigation for a leak not ended by a program repair", inp)
    vol_ok = res["emitDays"] + res["mitDays"] == base["emitDays"]
    if inter:
        intermittent_identity(ctx, ad, idur, res, base, inp, "")
    elif not vol_ok:
        if start + nrd >= n:
            sub = "natural-end-on-or-after-last-day"
        elif res["activeDays"] > base["activeDays"]:
            sub = "outlived-natural-end"
        else:
            sub = "other"
        ctx.violate("C02:identity:persistent:" + sub,
                    "persistent leak: emitted + mitigated != baseline emitted", inp)


def wholerun_record(ctx, res, rec):
    """the same clauses on a record of a whole simulation, joined with the baseline program's record"""
    if not rec["repairable"]:
        return
    base = EC.base_fields(rec)
    inp = {"cfg": res.cfg, "prog": rec["prog"], "sim": rec["sim"], "key": list(rec["key"]), "row": rec["row"],
           "baseline_row": rec["base"]}
    if base is None:
        ctx.violate("C02:wholerun:no-baseline-twin", "program emission has no twin in the baseline program's records", inp)
        return
    if rec["mitDays"] < 0:
        ctx.violate("C02:negative-mitigation", "mitigated volume is negative", inp)
    program_repair = rec["status"] == "repaired" and rec["by"] not in ("natural", "", "None")
    if rec["mitDays"] != 0 and not program_repair:
        ctx.violate("C02:mitigation-without-program-repair", "non-zero mitigation without program repair", inp)
    if not EC.tagging_methods(res.cfg, rec["prog"]):
        # coverage 0 (or no component-scale method at all): nothing can ever be tagged, so nothing is mitigated
        # and the leak lives exactly as without LDAR - read from the configuration only
        ctx.count("wholerun_records_of_programs_that_cannot_tag:%s" % ("no-methods" if not next(p_["methods"] for p_ in res.cfg["programs"] if p_["name"] == rec["prog"]) else "coverage-0"))
        if rec["mitDays"] != 0 or program_repair or rec["activeDays"] != base["activeDays"]:
            ctx.violate("C02:mitigation-with-zero-coverage",
                        "a program none of whose methods can see any emission (coverage 0 / no tagging method) "
                        "reports mitigation, a program repair or a life that differs from the no-LDAR run", inp)
    vol_ok = rec["emitDays"] + rec["mitDays"] == base["emitDays"]
    if rec["intermittent"]:
        intermittent_identity(ctx, rec["adur"], rec["idur"],
                              {k: rec[k] for k in ("status", "activeDays", "emitDays", "mitDays")}, base, inp, "wholerun_")
    elif not vol_ok:
        ctx.violate("C02:identity:persistent:whole-run", "persistent leak: emitted + mitigated != baseline emitted", inp)
    ctx.count("wholerun_oracle_evaluated")
    ctx.count("wholerun_oracle:%s" % ("intermittent" if rec["intermittent"] else "persistent"))
    if rec["prog"] != res.cfg["baseline"]:
        if program_repair:
            ctx.count("wholerun_records_with_program_repair")
        if rec["mitDays"] > 0:
            ctx.count("wholerun_records_with_mit>0")
        if rec["start"] < 0:
            ctx.count("wholerun_records_pre-period")
        if rec["start"] + rec["nrd"] >= res.ndays:
            ctx.count("wholerun_records_natural-end>=last-day")


def wholerun_totals(ctx, res, recs):
    """program totals: the Emissions Summary rows must carry the sums of the program's own records, and
    total mitigated = baseline emitted - program emitted, rate-weighted (C02_totals_weighted), summed over
    the *persistent repairable* records of the program; with the non-repairable records added
    (C02_totals_all) the identity Σ rate·emitted + Σ rate·mitigated = Σ rate·baseline emitted must hold too.
    Intermittent repairable records are left out of the sums (F4), the program is not skipped."""
    rows = res.summary("Emissions Summary") or []
    for row in rows:
        prog, sim = row["Program Name"], int(row["Simulation"])
        mine = [r for r in recs if r["prog"] == prog and r["sim"] == sim]
        tot_mit = sum(float(r["row"]["Mitigated Emissions (Kg Methane)"]) for r in mine)
        tot_em = sum(float(r["row"]['"True" Volume Emitted (Kg Methane)']) for r in mine)
        inp = {"cfg": res.cfg, "prog": prog, "sim": sim, "summary_row": row}
        if abs(float(row['Total "True" Mitigated Emissions (Kg Methane)']) - tot_mit) > 1e-6 * max(1.0, tot_mit):
            ctx.violate("C02:totals:summary-mitigated", "summary total mitigated != sum over the program's records", inp)
        if abs(float(row['Total "True" Emissions (Kg Methane)']) - tot_em) > 1e-6 * max(1.0, tot_em):
            ctx.violate("C02:totals:summary-emitted", "summary total emitted != sum over the program's records", inp)
        usable = [r for r in mine if r["base"] is not None and not r["ambiguous_twin"]
                  and r["emitDays"] is not None and r["mitDays"] is not None]
        rep = [r for r in usable if r["repairable"] and not r["intermittent"]]
        lhs = sum(r["mitDays"] * r["rate"] for r in rep)
        rhs = sum((EC.base_fields(r)["emitDays"] - r["emitDays"]) * r["rate"] for r in rep)
        if lhs != rhs:
            ctx.violate("C02:totals:mitigated!=baseline-program",
                        "program total mitigated != baseline emitted - program emitted (persistent repairable records)", inp)
        every = rep + [r for r in usable if not r["repairable"]]
        lhs = sum((r["emitDays"] + r["mitDays"]) * r["rate"] for r in every)
        rhs = sum(EC.base_fields(r)["emitDays"] * r["rate"] for r in every)
        if lhs != rhs:
            ctx.violate("C02:totals:all-leaks",
                        "program total emitted + mitigated != baseline emitted (persistent repairable + non-repairable records)", inp)
        ctx.count("wholerun_totals_checked")
        ctx.count("wholerun_totals_records_summed", len(every))
        ctx.count("wholerun_totals_records_left_out(intermittent repairable)",
                  sum(1 for r in mine if r["repairable"] and r["intermittent"]))


def run(ctx):
    ctx.rule = ("cases = (start, nrd, delay, kind, N, tag events); structured-exhaustive core (only starts the "
                "generator can produce, start >= -nrd): A persistent kinds, N<=8, nrd<=6, delay<=3, one tag on any day, "
                "reporting delay {0,2}; B intermittent kinds on/off in {1,2}^2, same grid; C two tags (N<=6, nrd<=4, "
                "reporting delays {0,2}x{0,2}); U a small separately counted sample of start < -nrd (never generated); "
                "subsampled by seed in quick, complete in thorough; + random small (<=3 tags, all 8 kinds) + random large; "
                "non-trivial = emission becomes active; distinct by (kind, pre-period, start=-nrd, end status, ender, "
                "multi-tag, nrd, delay, N, active days)")
    core.lean_stage(ctx, MODULE, FILE, drivers=["drv_emission"])
    EC.tie_stage(ctx)  # layer 3: the emission methods, translated from the current source, are the model's functions
    cases = EC.build_cases(ctx)
    results = EC.correspond(ctx, cases)
    base_cache = {}
    for (c, res, ml, il) in results:
        if not c[3]:
            continue
        b = EC.baseline_result(ctx, base_cache, c)
        if b is None:
            continue
        oracle_case(ctx, c, res, b[0])
        ctx.count("oracle_evaluated")
    for (c, res, ml, il) in results[:3]:
        ctx.sample({"case": list(c), "impl": il.split(" | ")[0]})
    EC.shared_component_stage(ctx, lambda ctx, case, res, base, w: oracle_case(ctx, case, res, base))
    EC.hardening_stages(ctx, results, lambda ctx, case, res, base, origin: oracle_case(ctx, case, res, base))
    EC.wholerun_stage(ctx, 5, 21, wholerun_record, per_result=wholerun_totals)
    EC.finish_hit_rates(ctx)
    for k in ("wholerun_records_with_program_repair", "wholerun_records_with_mit>0"):
        ctx.counts.setdefault(k, 0)
        if ctx.counts[k] == 0:
            ctx.note("whole runs of this seed: %s = 0 - the whole-run oracle evaluations of this run say nothing "
                     "about mitigation (unit and shared-component stages do)" % k)
    ctx.extra["wholerun_evidence"] = {k: v for k, v in sorted(ctx.counts.items()) if k.startswith("wholerun_")}
    ctx.assumptions.append("volumes are day counts x rate x 86.4; rates on the exact grid (rate 1.0)")
    _end_arg_problem(ctx)


def _end_arg_problem(ctx):
    from harness.adapters import emission as E

    for msg in E.END_ARG_PROBLEM:
        ctx.broke("correspondence: summary end-date argument", msg)


def replay(ctx, data):
    inp = data.get("input", {})
    if "case" not in inp:
        print("replay: broken obligation / correspondence:", data.get("broken_obligations"), data.get("correspondence_disagreements"))
        return 1
    c = inp["case"]
    case = tuple(c[:8]) + ([tuple(e) for e in c[8]],)
    res = EC.impl_result(case)
    base = EC.impl_result(EC.without_events(case))
    oracle_case(ctx, case, res, base)
    print("program :", res)
    print("baseline:", base)
    for v in ctx.violations:
        print("oracle:", v["signature"], "-", v["what"])
    return 1 if ctx.violations else 0
