"""Layer 3 (DESIGN.md §10.21): translators regenerate Lean definitions of selected methods from the
current source on every run; tie theorems say the translation *is* the hand-written model's function.

    emission_tie(ctx)   virtual_world/emission_types/*  ->  Generated/EmissionSrc.lean, Props/EmissionTie.lean
    crew_tie(ctx)       programs/method.py survey_site   ->  Generated/CrewSrc.lean,     Props/CrewTie.lean

Policy: a method outside the translated subset, or a source the translator cannot read, is a *note*
(its tie is then the differential correspondence alone).  A translation whose tie theorem no longer
compiles is a *broken obligation*: the code says something else than the model; the stages that follow
keep searching for a failing input."""
import json

from harness import core


def _run(ctx, label, generate, module, rel_file, more=(), validate=None, driver=None):
    try:
        rep = generate()
    except Exception as e:  # noqa: BLE001 - unexpected shape of the source
        ctx.note("layer-3 (%s) translation not available (%s: %s); tie = correspondence only"
                 % (label, type(e).__name__, e))
        ctx.extra.setdefault("layer3", {})[label] = {"available": False, "reason": str(e)}
        ctx.count("layer3:%s:unavailable" % label)
        return None
    info = {"available": True, "translated_functions": len(rep["translated"]),
            "untranslated": rep["untranslated"]}
    for k in ("constants", "owners", "ignored"):
        if k in rep:
            info[k] = rep[k]
    ctx.extra.setdefault("layer3", {})[label] = info
    if rep["untranslated"]:
        ctx.note("layer-3 (%s): methods outside the translated subset: %s; their tie is the correspondence only"
                 % (label, json.dumps(rep["untranslated"])))
        ctx.count("layer3:%s:untranslated" % label, len(rep["untranslated"]))
        return False
    prev_ax, prev_cmd = dict(ctx.extra.get("axioms", {})), ctx.checker_cmd
    ok = core.lean_stage(ctx, module, rel_file)
    for m, f in more:   # corollaries that combine the tie with the property theorems
        ok = core.lean_stage(ctx, m, f) and ok
    ctx.extra["axioms"] = dict(prev_ax, **ctx.extra.get("axioms", {}))
    ctx.checker_cmd = ((prev_cmd or "") + " ; layer 3: python -m harness.extract.%s_src && lake build %s"
                       % (label, module))
    ctx.count("layer3:%s:tie_theorems_checked" % label)
    if validate is not None:
        # translation validation: the generated Lean functions (compiled driver) against the real methods
        built, log = core.lake_build([driver])
        if not built:
            ctx.broke("lake build %s (driver of the translated functions)" % driver, log)
        else:
            try:
                validate(ctx, rep, ctx.pick(50, 400))
            except Exception as e:  # noqa: BLE001 - the real classes no longer have the shape the schema describes
                ctx.broke("translation validation (%s)" % label, "%s: %s" % (type(e).__name__, e))
    return ok


def emission_tie(ctx):
    from harness.extract import emission_src
    return _run(ctx, "emission", emission_src.generate, "LdarModel.Props.EmissionTie",
                "LdarModel/Props/EmissionTie.lean",
                more=[("LdarModel.Props.EmissionOnSource", "LdarModel/Props/EmissionOnSource.lean"),
                      ("LdarModel.Props.EmissionRecord", "LdarModel/Props/EmissionRecord.lean")],
                validate=_emission_validate, driver="drv_emission_src")


def _emission_validate(ctx, rep, n):
    from harness.adapters import src_validate
    src_validate.emission_validate(ctx, rep, n)


def crew_tie(ctx):
    from harness.extract import crew_src
    return _run(ctx, "crew", crew_src.generate, "LdarModel.Props.CrewTie", "LdarModel/Props/CrewTie.lean",
                validate=_crew_validate, driver="drv_crew_src")


def _crew_validate(ctx, rep, n):
    from harness.adapters import src_validate
    src_validate.crew_validate(ctx, rep, n)


def planner_tie(ctx):
    from harness.extract import planner_src
    return _run(ctx, "planner", planner_src.generate, "LdarModel.Props.PlannerTie",
                "LdarModel/Props/PlannerTie.lean", validate=_planner_validate, driver="drv_planner_src")


def _planner_validate(ctx, rep, n):
    from harness.adapters import src_validate
    src_validate.planner_validate(ctx, rep, n)


def followup_tie(ctx):
    from harness.extract import followup_src
    return _run(ctx, "followup", followup_src.generate, "LdarModel.Props.FollowUpTie",
                "LdarModel/Props/FollowUpTie.lean", validate=_followup_validate, driver="drv_followup_src")


def _followup_validate(ctx, rep, n):
    from harness.adapters import src_validate
    src_validate.followup_validate(ctx, rep, n)


def estimate_tie(ctx):
    from harness.extract import estimate_src
    return _run(ctx, "estimate", estimate_src.generate, "LdarModel.Props.EstimateTie",
                "LdarModel/Props/EstimateTie.lean")
