"""Generators, correspondence and direct oracle for the follow-up work practice (C09)."""
from __future__ import annotations

from fractions import Fraction

from harness.core import LeanDriver

# rates are multiples of 840 = lcm(1..8) times a small integer: means over up to 8 entries are
# integers; beyond that the exact rational is recovered by adapters.followup.frac (asserted exact)
UNIT = 840
PROPS = [[0, 1], [1, 1], [1, 2], [1, 4], [3, 4], [1, 8], [3, 8], [1, 1], [0, 1], [1, 2]]
FILTERS = ["recent", "max", "average"]


def gen_method(rng, stationary=None):
    st = rng.random() < 0.35 if stationary is None else stationary
    thr = rng.choice([0, 1, 2, 3, 4, 6]) * UNIT
    inst = None if rng.random() < 0.4 else [rng.choice([3, 5, 6, 8, 12]) * UNIT, 1]
    return {
        "stationary": st,
        "rd": rng.choice([0, 0, 1, 2, 3]),
        "delay": rng.choice([0, 0, 1, 2, 3, 5]),
        "prop": list(rng.choice(PROPS)),
        "thrFirst": rng.random() < 0.5,
        "thr": [thr, 1],
        "inst": inst,
        "filter": rng.choice(FILTERS),
        "sw": rng.choice([1, 2, 2, 3]),
        "lw": rng.choice([2, 3, 4, 5]),
        "sthr": [rng.choice([0, 2, 3, 4, 6]) * UNIT, 1],
        "lthr": [rng.choice([0, 0, 1, 2, 3]) * UNIT, 1],
    }


def gen_history(rng, nmethods=1, big=False, stationary=None):
    n = rng.randint(1, 4) if not big else rng.randint(3, 8)
    ndays = rng.randint(3, 10) if not big else rng.randint(12, 40)
    if stationary is None and nmethods > 1:
        stationary = rng.random() < 0.35       # mixed deployment types exit (finding F13b): own witness
    methods = [gen_method(rng, stationary) for _ in range(nmethods)]
    # crew shortage of the follow-up method: one or two crews, short days, long surveys
    workday = rng.choice([4, 8, 8, 12])
    fu = {"crews": rng.choice([1, 1, 2]), "workday": workday,
          "times": [rng.choice([60, 120, 240, workday * 60, workday * 60 + 120, workday * 90]) for _ in range(n)]}
    hot = [rng.random() < 0.6 for _ in range(n)]      # sites detected again and again
    days = []
    for dn in range(ndays):
        scr = []
        for mi, mp in enumerate(methods):
            for s in range(n):
                pr = (0.85 if mp["stationary"] else 0.45) if hot[s] else 0.12
                if rng.random() < pr:
                    k = rng.choice([0, 0, 1, 2, 3, 4, 5, 6, 8, 9, 12, 16])
                    scr.append([mi, s, k * UNIT, 1])
        tags = [s for s in range(n) if rng.random() < 0.05]
        days.append({"screen": scr, "tag": tags})
    return {"nsites": n, "methods": methods, "fu": fu, "days": days}


# ------------------------------------------------------------------------------------------------
# correspondence: the real objects and the Lean driver on the same histories
# ------------------------------------------------------------------------------------------------
def correspond(ctx, hists, component="followup"):
    """returns list of (hist, lines, impl_lines, world) ; records disagreements in ctx"""
    from harness.adapters import followup as F

    runs = []
    all_lines = []
    for h in hists:
        lines, impl, w = F.run_history(h)
        runs.append((h, lines, impl, w))
        all_lines += lines
    model = LeanDriver("drv_followup").run(all_lines)
    k = 0
    for (h, lines, impl, w) in runs:
        ml = model[k:k + len(lines)]
        k += len(lines)
        for j, (a, b) in enumerate(zip(ml, impl)):
            ctx.evaluations += 1
            if a != b:
                ctx.disagree(component, {"history": h, "line": lines[j], "index": j}, a, b)
                ctx.count("disagree")
                break
        ctx.traces += 1
    return runs
