"""Generators, correspondence and direct oracle for the follow-up work practice (C09)."""
from __future__ import annotations

from fractions import Fraction

from harness.core import LeanDriver

# rates are multiples of 840 = lcm(1..8) times a small integer: means over up to 8 entries are
# integers; beyond that the exact rational is recovered by adapters.followup.frac (asserted exact)
UNIT = 840
# proportions: dyadic and decimal ones (the model computes ceil(p*n) over exact rationals; the code is
# handed the double p/q)
PROPS = [[0, 1], [1, 1], [1, 2], [1, 4], [3, 4], [1, 8], [3, 8], [1, 1], [0, 1], [1, 2],
         [1, 10], [3, 10], [7, 100], [28, 100], [55, 100], [2, 3]]
FILTERS = ["recent", "max", "average"]


def gen_method(rng, stationary=None):
    st = rng.random() < 0.35 if stationary is None else stationary
    thr = rng.choice([0, 1, 2, 3, 4, 6]) * UNIT
    inst = None if rng.random() < 0.4 else [rng.choice([3, 5, 6, 8, 12]) * UNIT, 1]
    scr = None
    if not st and rng.random() < 0.35:
        # screening surveys that do not fit into the crew's day: started on one day, completed (and
        # measured) on a later one
        scr = {"workday": rng.choice([4, 8]), "time": rng.choice([150, 200, 300, 420]), "travel": rng.choice([0, 0, 30])}
    return {
        "scr": scr,
        "stationary": st,
        "rd": rng.choice([0, 0, 1, 2, 3]),
        "delay": rng.choice([0, 0, 1, 2, 3, 5]),
        "prop": list(rng.choice(PROPS)),
        "thrFirst": rng.random() < 0.5,
        "thr": [thr, 1],
        "inst": inst,
        "filter": rng.choice(FILTERS),
        "sw": rng.choice([1, 2, 2, 3]),
        "lw": rng.choice([1, 2, 3, 4, 5]),
        "sthr": [rng.choice([0, 2, 3, 4, 6]) * UNIT, 1],
        "lthr": [rng.choice([0, 0, 1, 2, 3]) * UNIT, 1],
    }


# first simulated days put into the generators on purpose: New Year inside the history, leap day,
# day-of-year 366, a history ending on Dec 31, one starting on Jan 1, the same dates one year apart
BOUNDARY_STARTS = [[2023, 12, 28], [2024, 12, 28], [2024, 2, 26], [2023, 2, 26], [2024, 12, 30], [2022, 12, 31],
                   [2024, 1, 1], [2023, 12, 31], [2024, 2, 29], [2021, 3, 1]]
NAME_SETS = [["AIR", "AIR_2"], ["M_1", "M_10"], ["kept", "NA"], ["Logs", "Logs2"], ["a", "a_b"]]
FU_NAMES = ["FU", "OGI_FU", "AIR_FU", "AIR", "_placeholder_str_x", "f_u_2"]


def gen_ids(rng, n):
    """site id strings: default, numeric strings whose lexicographic and natural order differ, unsorted"""
    r = rng.random()
    if r < 0.5:
        return None
    if r < 0.75:
        ids = [str(k) for k in rng.sample(range(1, 120), n)]
    else:
        ids = ["site_%d" % k for k in rng.sample(range(0, 30), n)]
    return ids


def gen_history(rng, nmethods=1, big=False, stationary=None, start=None, ndays=None):
    n = rng.randint(1, 4) if not big else rng.randint(3, 12)
    if ndays is None:
        ndays = rng.choice([1, 2, 3, 4, 5, 6, 7, 8, 9, 10]) if not big else rng.randint(12, 40)
    if stationary is None and nmethods > 1:
        stationary = rng.random() < 0.35       # mixed deployment types exit (finding F13b): own witness
    methods = [gen_method(rng, stationary) for _ in range(nmethods)]
    # crew shortage of the follow-up method: one or two crews, short days, long surveys
    workday = rng.choice([4, 8, 8, 12])
    fu = {"crews": rng.choice([1, 1, 2, 0]), "workday": workday,        # crew_count 0: the code falls back to 1
          "times": [rng.choice([60, 120, 240, workday * 60, workday * 60 + 120, workday * 90]) for _ in range(n)],
          "travel": rng.choice([0, 0, 0, 30, [0, 30], 15.0])}
    hot = [rng.random() < 0.6 for _ in range(n)]      # sites detected again and again
    days = []
    for dn in range(ndays):
        scr = []
        for mi, mp in enumerate(methods):
            for s in range(n):
                pr = (0.85 if mp["stationary"] else 0.45) if hot[s] else 0.12
                if rng.random() < pr:
                    k = rng.choice([0, 0, 1, 2, 3, 4, 5, 6, 8, 9, 12, 16])
                    scr.append([mi, s, k * UNIT, 1])
        tags = [s for s in range(n) if rng.random() < 0.05]
        days.append({"screen": scr, "tag": tags})
    h = {"nsites": n, "methods": methods, "fu": fu, "days": days}
    if start is None and rng.random() < 0.4:
        start = rng.choice(BOUNDARY_STARTS)
    if start is not None:
        h["start"] = list(start)
    if rng.random() < 0.4:
        h["names"] = list(rng.choice(NAME_SETS))[:nmethods] if nmethods <= 2 else None
        h["fu_name"] = rng.choice(FU_NAMES)
        if h["fu_name"] in (h["names"] or []):
            h["fu_name"] = "FU"
    ids = gen_ids(rng, n)
    if ids is not None:
        h["ids"] = ids
    return h


# ------------------------------------------------------------------------------------------------
# correspondence: the real objects and the Lean driver on the same histories
# ------------------------------------------------------------------------------------------------
def correspond(ctx, hists, component="followup"):
    """returns list of (hist, lines, impl_lines, world) ; records disagreements in ctx"""
    from harness.adapters import followup as F

    runs = []
    all_lines = []
    failed = 0
    for h in hists:
        try:
            lines, impl, w = F.run_history(h)
        except (Exception, SystemExit) as e:  # noqa: BLE001
            # the adapter could not drive the real code (unexpected shape): broken obligation with the
            # history as input, the other histories are still run
            failed += 1
            if failed <= 3:
                import traceback
                ctx.broke("C09 adapter could not drive the real code: %s" % type(e).__name__,
                          traceback.format_exc()[-1200:])
                ctx.disagree(component, {"history": h}, "a run of the history", "adapter error " + type(e).__name__)
            continue
        runs.append((h, lines, impl, w))
        all_lines += lines
    model = LeanDriver("drv_followup").run(all_lines)
    k = 0
    for (h, lines, impl, w) in runs:
        ml = model[k:k + len(lines)]
        k += len(lines)
        for j, (a, b) in enumerate(zip(ml, impl)):
            ctx.evaluations += 1
            if a != b:
                ctx.disagree(component, {"history": h, "line": lines[j], "index": j}, a, b)
                ctx.count("disagree")
                break
        ctx.traces += 1
    return runs


# ------------------------------------------------------------------------------------------------
# direct oracle: the clauses of C09 evaluated on what the REAL objects did (independent of the model)
# ------------------------------------------------------------------------------------------------
SIG_DUP2 = "C09:one-outstanding:two-screening-methods"
SIG_MIXED = "C09:two-screening-methods:mixed-deployment-exit"
SIG_STALE_POOLED = "C09:stale:pooled-or-queued-before-later-tagging-survey"
SIG_STALE_INSTANT = "C09:stale:instant-route"     # never a known finding: Lean proves it cannot happen


def ceil_frac(fr):
    fr = Fraction(fr)
    return -((-fr.numerator) // fr.denominator)


def mean_last(w, rates):
    if not w or len(rates) < w:
        return Fraction(0)
    return sum(rates[-w:], Fraction(0)) / w


def expected_rates(mp, e):
    """the redundancy-filtered rate recomputed from the plan's own list of detections"""
    rates = e["rates"]
    sw, lw = e["windows"]
    if sw is not None:                       # stationary planner
        if len(rates) == 1:
            return Fraction(0), Fraction(0)  # the constructor starts both rolling rates at 0
        return mean_last(sw, rates), mean_last(lw, rates)
    f = mp["filter"]
    if len(rates) == 1 or f == "recent":
        return rates[-1], Fraction(0)
    if f == "max":
        return max(rates), Fraction(0)
    return sum(rates, Fraction(0)) / len(rates), Fraction(0)


def oracle(ctx, hist, w):
    """returns a dict of what happened (for coverage keys); calls ctx.violate for every failed clause"""
    nm = len(hist["methods"])
    single = nm == 1
    inp = {"history": hist}
    seen = {"instant": 0, "pool": 0, "reinsert": 0, "stale_discarded": 0, "rejected": 0, "dropped": 0,
            "inprogress": 0, "unattended": 0, "complete": 0, "decisions": 0, "dup": 0, "stale_strict": 0,
            "multiday_screenings": sum(1 for sv in w.screen_log if sv["start"] < sv["completed"]),
            "zero_rescreenings": 0}

    def V(sig, what, extra=None):
        d = dict(inp)
        if extra is not None:
            d["detail"] = extra
        ctx.violate(sig, what, d)

    # --- crashes ------------------------------------------------------------------------------
    if w.crash is not None:
        kinds = {bool(m["stationary"]) for m in hist["methods"]}
        if not single and len(kinds) == 2 and w.crash["type"] == "SystemExit":
            V(SIG_MIXED, "a mobile and a stationary screening method share one follow-up method: re-detecting "
              "a site queued by the other method ends the run with sys.exit (invalid redundancy filter)", w.crash)
        else:
            V("C09:crash:%s:%s" % ("single" if single else "multi", w.crash["type"]),
              "the work practice raised " + w.crash["type"], w.crash)

    # --- at most one outstanding request per site; flag <-> queued ----------------------------
    tainted = set()      # sites for which requests of different methods have coexisted (F13 happened)
    for sn in w.snaps:
        sites = [s for (_, s, _) in sn["queue"]]
        dup = sorted({s for s in sites if sites.count(s) > 1})
        for ds in dup:
            seen["dup"] += 1
            who = {c for (q, c) in zip(sn["queue"], sn["creators"]) if q[1] == ds}
            # the known finding is about requests of *different* screening methods (or what is left of them:
            # once one of two such requests is completed the flag is cleared and the site can be flagged anew)
            if len(who) > 1:
                tainted.add(ds)
            V(SIG_DUP2 if ds in tainted else "C09:one-outstanding:same-method",
              "a site has more than one outstanding follow-up request", {"day": sn["day"], "site": ds, "queued_by": sorted(who),
                                                                         "queue": [list(map(str, q)) for q in sn["queue"]]})
        if single:
            for k, b in enumerate(sn["inq"]):
                if bool(b) != (k in sites):
                    V("C09:one-outstanding:flag-mismatch", "in-queue flag and queue content differ",
                      {"day": sn["day"], "site": k})
            pool, inpool, _, _ = sn["pools"][0]
            psites = [s for (s, _) in pool]
            for k, b in enumerate(inpool):
                if bool(b) != (k in psites) or psites.count(k) > 1:
                    V("C09:one-outstanding:pool-flag-mismatch", "in-pool flag and pool content differ",
                      {"day": sn["day"], "site": k})
                if b and sn["inq"][k]:
                    V("C09:one-outstanding:pooled-and-queued", "site both pooled and queued", {"day": sn["day"], "site": k})

    # --- every insertion by a screening method ---------------------------------------------------
    # completed screening surveys, from the observed survey log (completion date of the survey report)
    screened = {}
    for sv in w.screen_log:
        screened.setdefault(sv["site"], []).append((sv["completed"], sv["method"], sv["rate"]))

    def processed(site, mi, upto_day):
        """the measurements of method mi at the site that were due (completion day + reporting delay) up to
        that day and not stale when they became due, in order — zero measurements included"""
        return [r["rate"] for r in w.releases
                if r["site"] == site and r["method"] == mi and r["day"] <= upto_day and r["tag"] <= r["dc"]]

    def completed_upto(site, mi, upto_day):
        return [r for (c, m_, r) in sorted(screened.get(site, []), key=lambda x: x[0]) if m_ == mi and c <= upto_day]
    flags = {}
    for e in w.queue_log:
        if not e["who"].startswith("M"):
            continue
        i = int(e["who"][1:])
        mp = hist["methods"][i]
        thr = Fraction(*mp["thr"])
        inst = None if mp.get("inst") is None else Fraction(*mp["inst"])
        new_request = bool(e["new_request"])
        if e["ctx"] == "decision":
            kind = "pool"
        elif new_request:
            kind = "instant"
        else:
            kind = "reinsert"
        seen[kind] += 1
        if len(e["rates"]) > 1 and any(x == 0 for x in e["rates"][1:]):
            seen["zero_rescreenings"] += 1
        if new_request or e["ctx"] == "decision":
            flags[e["site"]] = flags.get(e["site"], 0) + 1
        det = {k: (str(v) if isinstance(v, Fraction) else v) for k, v in e.items() if k not in ("rates",)}
        det["rates"] = [str(x) for x in e["rates"]]
        # flag events (pool / instant route) are checked for any number of screening methods (the plan comes
        # from the method's own pool or is new: Lean C09_flags_any_methods); re-insertions of queued plans
        # only for a single method (with several, the queued plan may belong to another method)
        if single or kind != "reinsert":
            # provenance: every rate behind the plan is a released screening of that site by this method
            avail = [r for (dn, mi, r) in screened.get(e["site"], [])
                     if mi == i and dn + hist["methods"][mi]["rd"] <= e["day"]]
            need = list(e["rates"])
            for r in need:
                if r in avail:
                    avail.remove(r)
                else:
                    V("C09:provenance", "a queued plan carries a rate that is no released detection of its site", det)
                    break
            # the detections behind the plan are exactly the newest due, non-stale measurements of the site
            # (zero measurements included), read from the survey log — not from the plan's own list
            seq = processed(e["site"], i, e["day"])
            k_ = len(e["rates"])
            if seq[len(seq) - k_:] != list(e["rates"]) or k_ > len(seq):
                allc = completed_upto(e["site"], i, e["day"])
                if e["rates"] and allc[len(allc) - k_:] == list(e["rates"]) and k_ <= len(allc):
                    V("C09:before-reporting-delay", "a plan already carries a measurement whose screening survey was "
                      "completed less than the reporting delay ago", det)
                else:
                    V("C09:filtered-rate:history-suffix", "the detections behind a queued plan are not the newest due "
                      "measurements of its site (a measurement was skipped or taken too early)", det)
            if kind == "pool" and not mp["stationary"] and 0 < k_ <= len(seq):
                fr_, _ = expected_rates(mp, {"rates": seq[len(seq) - k_:], "windows": e["windows"]})
                if fr_ < thr:
                    V("C09:flag-below-threshold:history", "a site was flagged although its redundancy-filtered rate, "
                      "recomputed from the screening history (zero measurements included), is below the threshold", det)
            # the detection date the plan reports is the day of an actual screening of that site by this
            # method with the newest rate of the plan (read from the history, not from the plan)
            if not any(dn == e["latest"] and mi == i and r == e["rates"][-1]
                       for (dn, mi, r) in screened.get(e["site"], [])):
                V("C09:latest-date-not-a-screening", "the detection date behind a queued plan is not the day of a "
                  "screening survey of that site with that rate", det)
            # the filtered rate is what the redundancy filter says
            exp, exp_long = expected_rates(mp, e)
            if e["rate"] != exp or (e["windows"][0] is not None and e["long"] != exp_long):
                V("C09:filtered-rate:%s" % ("rolling" if e["windows"][0] is not None else mp["filter"]),
                  "the rate used for the flagging decision is not the redundancy-filtered rate", det)
            # threshold routing
            if kind == "pool":
                if mp["stationary"]:
                    sthr, lthr = Fraction(*mp["sthr"]), Fraction(*mp["lthr"])
                    ok = e["rate"] >= sthr or (lthr != 0 and e["long"] != 0 and e["long"] >= lthr)
                else:
                    ok = e["rate"] >= thr
                if not ok:
                    V("C09:flag-below-threshold:pool", "a site was flagged with a filtered rate below the threshold", det)
            elif kind == "instant":
                if inst is None or e["rate"] < inst:
                    V("C09:flag-below-threshold:instant", "a site bypassed the pool below the instant threshold", det)
            else:
                if not mp["stationary"] and not ((inst is not None and e["rate"] >= inst) or e["rate"] >= thr):
                    V("C09:requeue-below-threshold", "a queued site was kept although its rate fell below the threshold", det)
            # reporting delay
            if e["latest"] + mp["rd"] > e["day"] or (kind == "instant" and e["latest"] + mp["rd"] != e["day"]):
                V("C09:before-reporting-delay", "a site was flagged before the reporting delay had passed", det)
        # the site's own record of its latest tagging survey must be the completion day of the latest
        # tagging-capable survey in the observed survey log (whether or not that survey tagged anything)
        if e.get("tag_attr") is not None and e["tag_attr"] != e["tag"]:
            V("C09:stale:tagging-survey-not-recorded", "a completed tagging-capable survey of the site is not what the "
              "site reports as its latest tagging survey", det)
        # strict stale clause (known finding F17 when the screening predates a later tagging survey)
        if kind == "pool" and e["tag"] > e["latest"]:
            seen["stale_strict"] += 1
            V(SIG_STALE_POOLED, "a site was flagged on a screening made before its latest tagging survey "
              "(the stale check is made only when the record is released)", det)
        if kind == "instant" and e["tag"] > e["latest"]:
            V(SIG_STALE_INSTANT, "a site bypassed the pool on a screening made before its latest tagging survey "
              "(the release-time check did not hold)", det)

    # --- decisions: delay and proportion (per screening method) --------------------------------------
    for mi_ in range(nm):
        mp = hist["methods"][mi_]
        prop = Fraction(*mp["prop"])
        dec_by_day = {d["day"]: d for d in w.decisions if d["method"] == mi_}
        first = None
        c_ind = 0
        prev_snap = {id(b): a for a, b in zip(w.snaps, w.snaps[1:])}
        for sn in w.snaps:
            if sn["op"] != "update" or sn["method"] != mi_:
                continue
            dn = sn["day"]
            dec = dec_by_day.get(dn)
            pool_mid = dec["pool"] if dec is not None else list(sn["pools"][mi_][0])
            if first is None and pool_mid:
                first = dn
            # the counter of non-zero sub-threshold detections, recomputed from the history: records
            # released today that are not stale, of sites that were neither in this method's pool nor
            # in the queue (content of the previous snapshot) when today's update began
            prev = prev_snap.get(id(sn))
            pooled = {s_ for (s_, _) in prev["pools"][mi_][0]} if prev else set()
            queued = {s_ for (_, s_, _) in prev["queue"]} if prev else set()
            thr_ = Fraction(*mp["thr"])
            inst_ = None if mp.get("inst") is None else Fraction(*mp["inst"])
            if not mp["stationary"]:
                for r in w.releases:
                    if r["day"] == dn and r["method"] == mi_ and r["tag"] <= r["dc"] \
                            and r["site"] not in pooled and r["site"] not in queued \
                            and 0 < r["rate"] < thr_ and not (inst_ is not None and r["rate"] >= inst_):
                        c_ind += 1
            if not single and dec is not None:
                # with several screening methods the in-queue flags and the queue content part ways once a
                # duplicate request exists (known finding F13); the recomputation is exact for one method only
                c_ind = dec["count"]
            if dec is not None and dec["count"] != c_ind:
                V("C09:proportion:counter", "the counter of sub-threshold detections differs from the number of such "
                  "released detections since the last decision", {"day": dn, "count": dec["count"], "recomputed": c_ind})
            if dec is not None:
                seen["decisions"] += 1
                det = {"day": dn, "pool": [[s, str(r)] for s, r in dec["pool"]], "kept": [[s, str(r)] for s, r in dec["kept"]],
                       "count": dec["count"], "first_independent": first}
                if first is None or dn - first < mp["delay"]:
                    V("C09:before-delay", "a flagging decision was taken before the delay after the first candidate", det)
                n, c = len(dec["pool"]), c_ind
                k = ceil_frac(prop * n) if mp["thrFirst"] else min(ceil_frac(prop * c), n)
                k = max(0, min(k, n))
                rates = [r for (_, r) in dec["pool"]]
                if any(rates[j] < rates[j + 1] for j in range(len(rates) - 1)):
                    V("C09:proportion:pool-order", "the candidate pool is not sorted by decreasing rate", det)
                if len(dec["kept"]) > k:
                    V("C09:proportion:count", "a decision kept more than ceil(proportion x n) candidates", det)
                elif dec["kept"] != dec["pool"][:len(dec["kept"])]:
                    V("C09:proportion:not-largest", "the kept candidates are not the largest ones", det)
                elif len(dec["kept"]) < k:
                    V("C09:proportion:fewer", "a decision kept fewer candidates than min(ceil(p x n), |pool|)", det)
                seen["rejected"] += n - len(dec["kept"])
                kept_sites = {s for (s, _) in dec["kept"]}
                for e in w.queue_log:
                    if e["day"] == dn and e["ctx"] == "decision" and e["who"] == "M%d" % mi_ \
                            and e["site"] not in kept_sites:
                        V("C09:proportion:flagged-not-kept", "a site outside the kept candidates was flagged", det)
                first = None
                c_ind = 0

    # --- stale check at release -------------------------------------------------------------------
    for r in w.releases:
        if r["tag"] > r["dc"]:
            seen["stale_discarded"] += 1
            # the site's plans may leave the pool through the day's decision, but none may have grown
            # by the stale record and no plan may have been created from it
            pre = r["pre"]["pool"] + r["pre"]["queue"]
            post = r["post"]["pool"] + r["post"]["queue"]
            if any(x not in pre for x in post):
                V("C09:stale:release-check", "a screening made before the site's latest tagging survey was processed",
                  {"day": r["day"], "site": r["site"], "screening_day": r["dc"], "latest_tagging_survey": r["tag"]})

    # --- the follow-up method works from its queue only ---------------------------------------------
    cap = w.cap * w.fu_method.get_crew_count()
    for fd in w.fu_days:
        head = []
        for (_, s, _) in fd["queue_before"][:cap]:
            if s not in head:
                head.append(s)
        if fd["planned"] != head:
            V("C09:followup-not-from-queue", "the follow-up plan of the day is not the head of the follow-up queue",
              {"day": fd["day"], "planned": fd["planned"], "queue_head": head})
    done = {}
    for v in w.visits:
        o = v["outcome"]
        seen["complete" if o == "c" else ("inprogress" if o == "p" else "unattended")] += 1
        if o == "c":
            done[v["site"]] = done.get(v["site"], 0) + 1
        # flagged = a flag event of the site (pool / instant route, from the queue log) not yet consumed by a
        # completed follow-up survey; computed here, not read from the code's in-queue flags
        nflag = sum(1 for e in w.queue_log if e["who"].startswith("M") and e["site"] == v["site"]
                    and (e["ctx"] == "decision" or e["new_request"]) and e["day"] <= v["day"])
        ndone = sum(1 for u in w.visits if u["site"] == v["site"] and u["outcome"] == "c" and u["day"] < v["day"])
        if nflag - ndone < 1:
            V("C09:followup-not-flagged", "the follow-up method planned a site without an unconsumed flag", v)
        if single and o in ("c", "p"):
            mp0 = hist["methods"][0]
            seq = processed(v["site"], 0, v["day"])
            k_ = len(v["rates"])
            if k_ > len(seq) or seq[len(seq) - k_:] != list(v["rates"]):
                V("C09:followup:history-suffix", "a follow-up survey rests on detections that are not the newest due "
                  "measurements of the site", {k: (str(x) if isinstance(x, Fraction) else x) for k, x in v.items() if k != "rates"})
            if not mp0["stationary"] and 0 < k_ <= len(seq):
                fr, _ = expected_rates(mp0, {"rates": seq[len(seq) - k_:], "windows": v["windows"]})
                thr0 = Fraction(*mp0["thr"])
                inst0 = None if mp0.get("inst") is None else Fraction(*mp0["inst"])
                if not (fr >= thr0 or (inst0 is not None and fr >= inst0)):
                    V("C09:followup-below-threshold", "a follow-up survey at a site whose redundancy-filtered rate "
                      "(recomputed from the screening history) is below the threshold",
                      {"day": v["day"], "site": v["site"], "recomputed": str(fr)})
        if single:
            if v["latest"] + hist["methods"][0]["rd"] > v["day"]:
                V("C09:before-reporting-delay", "a follow-up visit before the reporting delay had passed", v)
        if o in ("c", "p") and v["tag_before"] > v["latest"]:
            seen["stale_strict"] += 1
            V(SIG_STALE_POOLED, "a follow-up survey was made on a screening older than the site's latest tagging "
              "survey (queued request not withdrawn)", v)
    if True:     # any number of methods (Lean C09_done_le_flags_any_methods)
        for s, k in done.items():
            if k > flags.get(s, 0):
                V("C09:more-followups-than-flags", "more completed follow-up surveys than flags for a site",
                  {"site": s, "done": k, "flags": flags.get(s, 0)})
    return seen
