"""Whole-simulation stage of C08 and C10: generated configurations are executed by the REAL simulator
(harness/wholerun.py, worker process with observation-only wrappers) and the clauses of the two
properties are evaluated on the wrapper trace and the timeseries / summary files the run wrote.

C08: per (day, method, crew): remaining minutes >= 0, crew starts with 60*min(workday, daylight)
(from the configuration, not from the code), travel + survey minutes + trip home <= that budget,
crew ids within the method's crew count; a visited site had cube values inside the envelope and
check_weather's verdict equals the envelope test; an unworkable site is left untouched.
C10: per day: each method's deployment-cost column = per-site charges of the surveys completed that
day / unit cost x crews that visited a site / unit cost x planned sites (stationary) + upfront x crews
on day 0; daily cost = sum of the method columns + repair cost; repair / natural repair columns =
sums of the booked amounts seen by the wrapper; one booking per repaired leak; a program without
methods costs nothing; Timeseries Summary total = sum of the daily costs.
"""
from __future__ import annotations

import concurrent.futures
import random
from datetime import date, timedelta

from harness import wholerun as W


# ------------------------------------------------------------------------------------------------
# running configurations
# ------------------------------------------------------------------------------------------------
def leapday_weather(job):
    """pre-run hook (worker process): keep the configuration's weather but make 30 December fine and
    31 December outside every envelope, at every cell -- in a leap year 31 December is day-of-year 366,
    the last day of the weather file"""
    from harness import shim

    base = shim.WEATHER["fn"]

    def fn(doy, i, j):
        if doy == 364:
            return (15.0, 1.0, 0.0)
        if doy == 365:
            return (15.0, 12.0, 0.0)
        return base(doy, i, j) if base is not None else (15.0, 1.0, 0.0)

    shim.set_weather(fn)


WIDE_TAGS = {"c08": ["crews", "workday", "weather", "freq", "months", "years", "sims"],
             "c10": ["crews", "workday", "cost", "repairs", "fractional", "freq", "months", "years", "sims", "economics"]}


def shortage_shape(cfg):
    """make the configured crew_count of the routine component-level method smaller than LDAR-Sim's
    own estimate (same site generator as make_config)"""
    rng = random.Random(cfg.get("weather_seed", 0))
    have = len(cfg["sites"])
    for i in range(have, 24):
        cfg["sites"].append({"id": i + 1, "lat": rng.choice([20.0, 40.0, 60.0]), "lon": rng.choice([-120.0, -100.0, -80.0]),
                             "type": rng.choice(["tA", "tB"]), "equipment": rng.randint(1, 3)})
    cfg["n_sites"] = len(cfg["sites"])
    cfg["methods"]["OGI"].update({"survey_time": 420, "max_workday": 8, "t_bw_sites": [30.0], "consider_daylight": False,
                                  "surveys_per_year": 24, "crew_count": 1, "months": list(range(1, 13))})
    cfg["methods"]["OGI"]["cost"]["upfront"] = 512.0


def nan_weather(job):
    """pre-run hook (worker process) honouring the configuration key `weather_nan` = {"prob": p}: keeps
    the configuration's weather but makes one of temperature / wind / precipitation a MISSING value (NaN,
    as merged or cropped reanalysis files carry) at a pseudo-random share p of the (day, cell) pairs"""
    import random as _r
    from harness import shim

    spec = job["cfg"].get("weather_nan")
    if not spec:
        return
    base = shim.WEATHER["fn"]
    seed = job["cfg"].get("weather_seed", 0)
    nan = float("nan")

    def fn(doy, i, j):
        v = list(base(doy, i, j) if base is not None else (15.0, 1.0, 0.0))
        r = _r.Random(seed * 7919 + doy * 131 + i * 17 + j)
        if r.random() < spec["prob"]:
            v[r.randrange(3)] = nan
        return tuple(v)

    shim.set_weather(fn)


def prev_with(cfg, kind):
    """`wholerun.prev_variant` for a chosen `what_differs`"""
    for k in range(400):
        prev, what = W.prev_variant(cfg, random.Random(k))
        if what == kind and prev != {x: cfg[x] for x in prev if x in cfg}:
            return prev, what
    return W.prev_variant(cfg, random.Random(0))


HISTORY_KINDS = {"c08": ["surveys-per-year", "site-count", "period-start", "months", "coverage", "n-sims"],
                 "c10": ["per-site-cost", "site-count", "repair-delay", "period-end", "n-sims", "duration"]}


def make_cfgs(ctx, n, flavour):
    cfgs = []
    for k in range(n):
        seed = ctx.rng.randrange(1 << 30)
        rng = random.Random(seed)
        ov = {"ndays": rng.choice([120, 200]) if ctx.quick else rng.choice([120, 200, 400])}
        if flavour == "c08" and k == 0:
            # a run whose last day is 31 December of a leap year (day-of-year 366), weather considered,
            # with the stationary method that checks every site every day
            ov = {"start": [2024, 11, 1], "ndays": 61}
        if flavour == "c10" and k == 1:
            # the same method parameters build several Method objects in one process: two simulations
            # in debug mode and two programs sharing a method label (upfront > 0, two crews)
            ov["n_sims"] = 2
            ov["ndays"] = 120
        if flavour == "c08":
            ov["consider_weather"] = (k % 3 != 2)
        else:
            ov["consider_weather"] = (k % 2 == 1)
        cfg = W.make_config(rng, **ov)
        names = [p["name"] for p in cfg["programs"]]
        if "P_fix" not in names and (k % 2 == 0):
            cfg["programs"] = cfg["programs"] + [{"name": "P_fix", "methods": ["FIX", "OGI_FU2"]}]
        if flavour == "c10" and k % 2 == 0:
            # the shape named in the property: a survey that uses up the crew's day to the minute
            cfg["methods"]["OGI"].update({"survey_time": 420, "max_workday": 8, "t_bw_sites": [30.0],
                                          "consider_daylight": False})
        if flavour == "c08" and k == 0:
            cfg["consider_weather"] = True
            if "P_fix" not in [p["name"] for p in cfg["programs"]]:
                cfg["programs"] = cfg["programs"] + [{"name": "P_fix", "methods": ["FIX", "OGI_FU2"]}]
            cfg["pre_run_hook"] = "harness.props._crew_wholerun:leapday_weather"
        if flavour == "c10" and k == 1:
            cfg["methods"]["OGI"]["cost"]["upfront"] = 512.0
            cfg["methods"]["OGI"]["crew_count"] = 2
            cfg["programs"] = cfg["programs"] + [{"name": "P_OGI_again", "methods": ["OGI"]}]
        if flavour == "c08" and k == 1:
            # missing values in the weather file: NaN at a share of the (day, cell) pairs
            cfg["consider_weather"] = True
            cfg["weather_nan"] = {"prob": 0.2}
            cfg["pre_run_hook"] = "harness.props._crew_wholerun:nan_weather"
        if k == 1 or (not ctx.quick and k % 4 == 3):
            # a genuine crew shortage: LDAR-Sim's own estimate for OGI is 2 crews (24 sites x 24 surveys a
            # year x 450 min a visit / (365 x 450 min a day)), the operator owns ONE
            shortage_shape(cfg)
        cfg["_verif_seed"] = seed
        cfgs.append(cfg)
    # "wide" configurations: leaves and boundary values the base generator never produces (crew_count 0 /
    # 3 / 5, max_workday 1 / 4 / 24, survey_time 1 / 480 / 600, time_between_sites [0] / [60, 0] / [240],
    # weather envelopes, all-positive / all-zero cost blocks, repair cost [0] / [1, 1000], repair delay [0],
    # surveys_per_year 24 / 52, single months, deployment years, 2-3 simulations, per-program economics)
    tags = WIDE_TAGS[flavour]
    n_wide = ctx.pick(2, 8)
    for k in range(n_wide):
        seed = ctx.rng.randrange(1 << 30)
        rng = random.Random(seed)
        wide = True if k == 0 else (tags if k % 2 == 1 else [tags[(k // 2 + j) % len(tags)] for j in range(3)])
        w = W.make_config(rng, ndays=rng.choice([90, 120]) if ctx.quick else rng.choice([120, 200]), wide=wide,
                          consider_weather=(flavour == "c08" and k % 2 == 0))
        if k % 3 == 1 and "P_fix" not in [p["name"] for p in w["programs"]]:
            w["programs"] = w["programs"] + [{"name": "P_fix", "methods": ["FIX", "OGI_FU2"]}]
        if ctx.quick and w["n_sims"] > 3:
            # the "sims-batch" tag (6 / 7 simulations) has its own configuration in the thorough tier; in
            # quick the all-tags draw is kept inside the time budget
            w["n_sims"] = 3
            w["wide_applied"] = [dict(a, value=3, capped_in_quick=True) if a["path"][-1] == "n_sims" else a
                                 for a in w.get("wide_applied", [])]
        w["_verif_seed"] = seed
        w["_wide"] = True
        cfgs.append(w)
    # "history": the folder was used by an earlier run whose configuration differs in ONE defining leaf; all
    # oracles are applied to the second run against ITS configuration (generated sites / costs / emissions
    # of the earlier run must not leak into it)
    for k in range(ctx.pick(1, 4)):
        seed = ctx.rng.randrange(1 << 30)
        rng = random.Random(seed)
        h = W.make_config(rng, ndays=rng.choice([90, 120]), consider_weather=(flavour == "c08"))
        h["methods"]["OGI"]["cost"].update({"per_day": 0.0, "per_site": rng.choice([100.0, 256.0])})
        prev, what = prev_with(h, HISTORY_KINDS[flavour][k % len(HISTORY_KINDS[flavour])])
        h["_verif_seed"] = seed
        h["_history"] = {"prev": prev, "what": what}
        cfgs.append(h)
    if not ctx.quick:
        # more than one batch of five simulations, the last batch partial
        seed = ctx.rng.randrange(1 << 30)
        b = W.make_config(random.Random(seed), ndays=60, wide=["sims-batch"], consider_weather=(flavour == "c08"))
        b["_verif_seed"], b["_wide"] = seed, True
        cfgs.append(b)
    # a 1- or 2-day period (first day = last day: upfront, budget and weather on the very first day)
    seed = ctx.rng.randrange(1 << 30)
    rng = random.Random(seed)
    tiny = W.make_config(rng, ndays=rng.choice([1, 2]), start=rng.choice([[2024, 12, 30], [2024, 2, 29], [2023, 1, 1]]),
                         consider_weather=(flavour == "c08"))
    # a run without a single emission crashes in the cross-program summaries of the unchanged code
    # (np.percentile of an empty column; reported to the owner of the summary properties): make sure a
    # tiny run has pre-period leaks
    tiny["pre_sim_emissions"] = True
    tiny["rep"] = dict(tiny["rep"], epr=0.03125, duration=365)
    tiny["_verif_seed"] = seed
    cfgs.append(tiny)
    # pool mode: the same kind of configuration through the process pool (pickled programs / weather /
    # daylight, two simulations, two programs sharing a method label)
    if flavour == "c10" or not ctx.quick:
        seed = ctx.rng.randrange(1 << 30)
        rng = random.Random(seed)
        pool = W.make_config(rng, ndays=rng.choice([90, 120]), n_sims=2, consider_weather=(flavour == "c08"))
        pool["methods"]["OGI"]["cost"]["upfront"] = 512.0
        pool["methods"]["OGI"]["crew_count"] = 2
        pool["programs"] = pool["programs"] + [{"name": "P_OGI_again", "methods": ["OGI"]}]
        pool["_verif_seed"] = seed
        pool["_mode"] = {"debug": False, "processes": 2}
        cfgs.append(pool)
    return cfgs


def run_cfgs(ctx, cfgs):
    workers = 2 if ctx.quick else 4
    with concurrent.futures.ThreadPoolExecutor(max_workers=workers) as ex:
        def one(c):
            mode = c.get("_mode", {"debug": True, "processes": 1})
            if c.get("_history"):
                return W.run_after(c["_history"]["prev"], c, debug=mode["debug"], processes=mode["processes"], trace=True)
            return W.run_config(c, debug=mode["debug"], processes=mode["processes"], trace=True)

        return list(ex.map(one, cfgs))


def crashed(ctx, cfg, res):
    """the real simulator exited with an error on a generated configuration: a broken obligation (the
    other stages keep searching for a failing input); the oracles are still evaluated on whatever
    per-program outputs and traces the run left behind.  One crash shape of the unchanged code is known
    and outside C08 / C10 (no emission at all -> np.percentile of an empty column in the cross-program
    summaries): it is counted and noted, not charged to these properties."""
    if res.rc == 0:
        return False
    empty = all((res.emissions(p["name"], sim) or []) == [] for p in cfg["programs"] for sim in range(cfg["n_sims"]))
    if empty and "get_nth_percentile" in res.log and "IndexError" in res.log:
        ctx.count("wholerun:known-crash-empty-emissions-in-summaries")
        ctx.note("whole run (seed %s) has no emission at all and crashed in the cross-program summaries "
                 "(known crash of the unchanged code outside this property); per-program outputs evaluated" % cfg["_verif_seed"])
        return True
    ctx.broke("whole run of generated configuration (seed %s, mode %s) exits %s" % (
        cfg["_verif_seed"], cfg.get("_mode", "debug"), res.rc), res.log[-1500:])
    ctx.count("wholerun:run-failed")
    return True


def _f(x):
    if x is None or x == "":
        return 0.0
    return float(x)


def expected_budget(cfg, method):
    m = cfg["methods"][method]
    w = m.get("max_workday", 24) if m["deployment_type"] != "stationary" else m.get("max_workday", 24)
    if m.get("consider_daylight", False):
        dl = cfg.get("daylight")
        dl = 14.0 if dl is None else dl
        return 60 * min(w, dl)
    return 60 * w


_DEFAULTS = {}


def method_default(deployment_type, key):
    """a leaf the configuration leaves out, as LDAR-Sim's default parameter files define it"""
    import os
    import yaml
    from harness import shim

    if deployment_type not in _DEFAULTS:
        fn = "m_default_stationary.yml" if deployment_type == "stationary" else "m_default_mobile.yml"
        with open(os.path.join(shim.REPO_SRC, "default_parameters", fn)) as fh:
            _DEFAULTS[deployment_type] = yaml.safe_load(fh)
    return _DEFAULTS[deployment_type].get(key)


def cfg_envelope(cfg, method):
    """[tLo, tHi, wLo, wHi, pLo, pHi] from the configuration (default parameter file when not given)"""
    m = cfg["methods"][method]
    env = m.get("weather_envelopes") or method_default(m["deployment_type"], "weather_envelopes")
    return [float(env["temperature"][0]), float(env["temperature"][1]), float(env["wind"][0]), float(env["wind"][1]),
            float(env["precipitation"][0]), float(env["precipitation"][1])]


def cfg_travel_values(cfg, method):
    """minutes a visit may be charged for travel: the rounded members of time_between_sites"""
    m = cfg["methods"][method]
    if m["deployment_type"] == "stationary":
        return {0}
    return {round(x) for x in m.get("t_bw_sites", [0])}


def site_overrides(cfg, method):
    """does the configuration carry per-site values for this method (survey time / cost / frequency)?"""
    return any(str(c).startswith(method + "_") for c in cfg.get("site_extra_cols", {}))


def cfg_site_cost(cfg, method, site):
    """survey cost of a site for a per-site method, from the configuration"""
    cols = cfg.get("site_extra_cols", {})
    key = [c for c in cols if str(c).startswith(method + "_") and "cost" in str(c)]
    if key:
        v = cols[key[0]].get(str(site), cols[key[0]].get(site))
        try:
            return float(v) if v not in (None, "") else float(cfg["methods"][method]["cost"].get("per_site", 0) or 0)
        except (TypeError, ValueError):
            return None
    return float(cfg["methods"][method]["cost"].get("per_site", 0) or 0)


def cfg_crews(cfg, method):
    """(crews the method has by its configuration, how it was derived).  stationary -> 1 pseudo crew;
    crew_count > 0 -> crew_count; crew_count 0 -> LDAR-Sim's own documented estimate: 1 for a follow-up
    method, else ceil(n_sites / (sites per crew-day x days between surveys)) with the method's workday,
    mean time between sites, survey time and surveys per year.  None when per-site overrides make the
    estimate depend on values this oracle does not read (counted as skipped)."""
    import math

    m = cfg["methods"][method]
    if m["deployment_type"] == "stationary":
        return 1, "stationary"
    c = m.get("crew_count", 0)
    if c > 0:
        return c, "configured"
    if m.get("is_follow_up"):
        return 1, "estimate:follow-up"
    if site_overrides(cfg, method):
        return None, "estimate:per-site-overrides"
    tb = m.get("t_bw_sites", [0])
    avg_travel = sum(tb) / len(tb)
    work = m.get("max_workday", 24) * 60 - avg_travel
    per_day = work / (m["survey_time"] + avg_travel)
    days = 365 / m["surveys_per_year"]
    return math.ceil(len(cfg["sites"]) / (per_day * days)), "estimate"


def expected_select(cost):
    pd = cost.get("per_day", 0)
    ps = cost.get("per_site")
    if pd > 0:
        return "day", pd
    if ps is not None and ps > 0:
        return "site", ps
    return "day", 0


def index_events(events):
    deploy, surveys, wx, plancost, repairs = {}, {}, {}, {}, {}
    for e in events:
        k = e[0]
        if k == "deploy":
            deploy[(e[1], e[2])] = e
        elif k == "survey":
            surveys.setdefault((e[1], e[2]), []).append(e)
        elif k == "wx":
            wx.setdefault((e[1], e[2], e[3]), []).append(e)
        elif k == "plancost":
            plancost[(e[1], e[2])] = e[3]
        elif k == "repaircost":
            repairs.setdefault(e[1], []).append(e)
    return deploy, surveys, wx, plancost, repairs


def survey_workable(events, cfg):
    """{id(survey event): bool} -- was the weather at the site's cell inside the method's envelope.
    Envelope and the "weather considered" switch are read from the CONFIGURATION (default parameter
    file when the method gives no envelope); the cube values come from the "wx" event (read from the
    weather arrays by the wrapper at its own index).  Independent of the code's `site_visit` flag."""
    pending = {}
    out = {}
    considered = bool(cfg.get("consider_weather"))
    for e in events:
        if e[0] == "wx":
            pending.setdefault((e[1], e[2], e[3]), []).append(e)
        elif e[0] == "survey":
            if not considered:
                out[id(e)] = True
                continue
            lst = pending.get((e[1], e[2], e[3]), [])
            w = lst.pop(0) if lst else None
            if w is None or w[5] is None:
                out[id(e)] = None
            else:
                (_, _, _, _, verdict, t, wi, pr, _env_of_object) = w
                env = cfg_envelope(cfg, e[2])
                missing = any(x != x for x in (t, wi, pr))
                out[id(e)] = (not missing) and env[0] <= t <= env[1] and env[2] <= wi <= env[3] and env[4] <= pr <= env[5]
    return out


def sums_of(values, n, cap=4096):
    """all totals obtainable by adding n (not necessarily distinct) members of `values`"""
    acc = {0.0}
    for _ in range(n):
        acc = {a + v for a in acc for v in values}
        if len(acc) > cap:
            return None
    return acc


# ------------------------------------------------------------------------------------------------
# C08
# ------------------------------------------------------------------------------------------------
def oracle_c08(ctx, cfg, prog, events, violate):
    deploy, surveys, wx, plancost, repairs = index_events(events)
    n_visits = 0
    for (day, method), evs in surveys.items():
        dep = deploy.get((day, method))
        budget = expected_budget(cfg, method)
        m = cfg["methods"][method]
        n_crews, how = cfg_crews(cfg, method)
        ctx.count("wholerun:crews-from-" + how)
        if n_crews is None:
            ctx.count("skipped:crew-count(estimate with per-site overrides)")
        per_crew = {}
        wx_used = {}
        considered = bool(cfg.get("consider_weather"))
        env = cfg_envelope(cfg, method)
        travel_ok = cfg_travel_values(cfg, method)
        s_cfg = 0 if m["deployment_type"] == "stationary" else (None if site_overrides(cfg, method) else m.get("survey_time"))
        for e in evs:
            (_, _, _, site, crew, r0, r1, s_time, travel, p0, p1, complete, in_prog, visited, last, wchk) = e
            n_visits += 1
            if (date(*cfg["start"]) + timedelta(days=day)).timetuple().tm_yday == 366:
                ctx.count("wholerun:survey-events-on-day-366-of-leap-year")
            # hypothesis ReqOk of the day theorems, measured on what the real schedule handed over
            req_ok = (travel >= 0 and p0 >= 0 and (s_time is None or p0 <= s_time or m["deployment_type"] == "stationary")
                      and (m["deployment_type"] != "stationary" or p0 == 0))
            ctx.count("hyp:ReqOk-ok" if req_ok else "hyp:ReqOk-miss")
            st = per_crew.setdefault(crew, {"spent": 0, "home": 0, "first": r0})
            info = {"prog": prog, "day": day, "method": method, "site": site, "event": e, "budget": budget}
            if r0 < 0 or r1 < 0:
                violate("C08:wholerun:negative-remaining", "a crew's remaining minutes are negative", info)
            if n_crews is not None and not (0 <= crew < n_crews):
                violate("C08:wholerun:more-crews-than-available", "crew id outside the method's crew count", info)
            # trace conformance against the configuration: survey time, travel time drawn, weather switch
            if s_cfg is None:
                ctx.count("skipped:survey-time(per-site overrides)")
            elif s_time != s_cfg:
                violate("C08:wholerun:survey-time-not-as-configured", "the survey time a visit works with is not the configured survey_time", info)
            if travel != 0 and travel not in travel_ok:
                violate("C08:wholerun:travel-time-not-from-configuration", "the travel time charged is not (the rounding of) a configured time_between_sites value", info)
            if bool(wchk) != considered:
                violate("C08:wholerun:weather-switch-not-as-configured", "the method considers weather differently from the configured consider_weather", info)
            today = p1 - p0
            st["spent"] += travel + today
            if complete or today > 0:
                st["home"] = travel
            if considered:
                lst = wx.get((day, method, site), [])
                i = wx_used.get(site, 0)
                w = lst[i] if i < len(lst) else None
                wx_used[site] = i + 1
                if w is None or w[5] is None:
                    ctx.count("wholerun:wx-event-missing")
                else:
                    (_, _, _, _, verdict, t, wi, pr, env_obj) = w
                    if env_obj is not None and [float(x) for x in env_obj] != env:
                        violate("C08:wholerun:envelope-not-as-configured", "the method's weather envelope differs from the configured one", info)
                    missing = any(x != x for x in (t, wi, pr))    # NaN in the weather file: inside no envelope
                    inside = (not missing) and env[0] <= t <= env[1] and env[2] <= wi <= env[3] and env[4] <= pr <= env[5]
                    ctx.count("wholerun:visit-weather-" + ("missing" if missing else "ok" if inside else "bad"))
                    ctx.nontrivial.add(("wr-wx", inside, t < env[0] or t > env[1], wi > env[3], pr > env[5]))
                    info["weather"] = w
                    if visited and not inside:
                        violate("C08:wholerun:visited-outside-envelope", "site visited although the weather at its cell is outside the envelope", info)
                    if verdict != inside:
                        violate("C08:wholerun:check-weather-verdict", "check_weather's verdict differs from the envelope test on the cube values", info)
                    if not inside and (p1 != p0 or complete or r1 != r0 or visited):
                        violate("C08:wholerun:unworkable-not-untouched", "unworkable site: report or crew changed", info)
            elif not visited:
                violate("C08:wholerun:not-visited-without-weather", "site not visited although weather is not considered", info)
        for crew, st in per_crew.items():
            info = {"prog": prog, "day": day, "method": method, "crew": crew, "budget": budget, "events": evs}
            if st["first"] != budget:
                violate("C08:wholerun:budget-not-min-workday-daylight", "crew does not start the day with 60*min(workday, daylight)", info)
            if st["spent"] + st["home"] > budget:
                violate("C08:wholerun:crew-minutes-exceed-budget", "travel + survey minutes + trip home of a crew exceed the day budget", info)
            ctx.nontrivial.add(("wr-crew", method, st["spent"] + st["home"] == budget, len(evs) > 1))
        if n_crews is not None and (len(per_crew) > n_crews or (dep is not None and dep[10] > n_crews)):
            violate("C08:wholerun:more-crews-than-available", "more crews deployed than the method has",
                    {"prog": prog, "day": day, "method": method})
    # crews the method was built with (as it reports on every deploy_crews) vs the configured crew_count
    flagged = set()
    for (day, method), dep in deploy.items():
        m = cfg["methods"][method]
        want, how = cfg_crews(cfg, method)
        if want is None:
            continue
        if method not in flagged and (dep[9] != want or dep[10] > max(want, 0)):
            flagged.add(method)
            violate("C08:wholerun:method-has-other-than-configured-crews",
                    "a method runs with a number of crews different from what its configuration gives it (crew_count; "
                    "LDAR-Sim's documented estimate when crew_count is 0)",
                    {"prog": prog, "day": day, "method": method, "configured": want, "derived": how, "method_reports": dep[9], "deployed": dep[10]})
        if dep[8] is not None:
            minutes = sum(e[8] + (e[10] - e[9]) for e in surveys.get((day, method), []))
            if minutes > max(want, 0) * expected_budget(cfg, method):
                violate("C08:wholerun:crew-minutes-exceed-configured-crews-x-budget",
                        "crew-minutes of a day exceed configured crews x day budget",
                        {"prog": prog, "day": day, "method": method, "configured": want, "minutes": minutes})
    requeue_check(ctx, cfg, prog, events, violate)
    # nearest weather cell, recomputed from the site's coordinates and the file's axes
    site_loc = {str(s_["id"]): (s_["lat"], s_["lon"]) for s_ in cfg["sites"]}
    seen_cells = set()
    for e in events:
        if e[0] != "wxcell" or (e[3], e[4], e[5]) in seen_cells:
            continue
        seen_cells.add((e[3], e[4], e[5]))
        (_, day, method, site, li, lj, la, lo, lats, lons) = e
        cla, clo = site_loc.get(site, (la, lo))
        ok = (cla, clo) == (la, lo) and 0 <= li < len(lats) and 0 <= lj < len(lons) and \
            abs(lats[li] - cla) == min(abs(x - cla) for x in lats) and abs(lons[lj] - clo) == min(abs(x - clo) for x in lons)
        ctx.count("wholerun:weather-cell-checked")
        if not ok:
            violate("C08:wholerun:weather-cell-not-nearest", "a site's weather is read at a cell that is not the nearest one to its coordinates",
                    {"prog": prog, "day": day, "method": method, "site": site, "cell": [li, lj], "site_loc": [cla, clo],
                     "file_lats": lats, "file_lons": lons})
    return n_visits


def requeue_check(ctx, cfg, prog, events, violate):
    """'that request stays queued': after an unworkable visit of a routine method the site must be
    planned again later.  A request that was put back has priority class 2; a request issued after a
    later completion of another site is class 3, so if such a newer request is planned on some later
    day while the unworkable site never is again, the request was lost."""
    workable = survey_workable(events, cfg)
    plans = {}      # method -> [(day, set(sites))]
    completed = {}  # method -> [(day, site)]
    for e in events:
        if e[0] == "deploy":
            plans.setdefault(e[2], []).append((e[1], set(e[3])))
        elif e[0] == "survey" and e[11]:
            completed.setdefault(e[2], []).append((e[1], e[3]))
    for e in events:
        if e[0] != "survey" or workable.get(id(e)) is not False:
            continue
        day, method, site = e[1], e[2], e[3]
        if cfg["methods"][method]["is_follow_up"] or cfg["methods"][method]["deployment_type"] == "stationary":
            continue
        later = [(d, ps) for (d, ps) in plans.get(method, []) if d > day]
        if any(site in ps for (_, ps) in later):
            ctx.count("wholerun:unworkable-request-planned-again")
            continue
        # newer (class 3) request seen in a later plan?
        newer = False
        for (d1, s1) in completed.get(method, []):
            if d1 >= day and s1 != site and any(d > d1 and s1 in ps for (d, ps) in later):
                newer = True
                break
        if newer:
            violate("C08:wholerun:unworkable-request-lost", "after an unworkable visit the site is never planned again although newer requests are",
                    {"prog": prog, "day": day, "method": method, "site": site})
        else:
            ctx.count("wholerun:unworkable-request-pending-at-end")


def run_c08(ctx):
    n = ctx.pick(2, 16)
    cfgs = make_cfgs(ctx, n, "c08")
    results = run_cfgs(ctx, cfgs)
    try:
        for cfg, res in zip(cfgs, results):
            crashed(ctx, cfg, res)
            expected = {(p["name"], sim) for p in cfg["programs"] for sim in range(cfg["n_sims"])}
            seen = {(tr["prog"], tr["sim"]) for tr in res.trace}
            if res.rc == 0 and expected - seen:
                ctx.broke("whole run: no trace for %s" % sorted(expected - seen), "seed %s" % cfg["_verif_seed"])
            for tr in res.trace:
                def violate(sig, what, info, cfg=cfg):
                    ctx.violate(sig, what, {"wholerun": {"prop": "C08", "cfg": cfg, "where": info}})
                try:
                    nv = oracle_c08(ctx, cfg, tr["prog"], tr["events"], violate)
                except Exception as e:   # noqa: BLE001  unexpected trace / output shape
                    import traceback

                    ctx.broke("whole-run oracle C08 could not read the run (seed %s)" % cfg["_verif_seed"],
                              "%s: %s\n%s" % (type(e).__name__, e, traceback.format_exc()[-800:]))
                    nv = 0
                ctx.evaluations += nv
            ctx.traces += 1
            ctx.count("wholerun:configs")
            count_wide(ctx, cfg)
            count_history(ctx, cfg, res)
    finally:
        for res in results:
            res.cleanup()


def count_history(ctx, cfg, res):
    if cfg.get("_history"):
        ctx.count("history:" + cfg["_history"]["what"])
        ctx.nontrivial.add(("history-run", cfg["_history"]["what"]))
        if getattr(res, "prev_rc", 0) != 0:
            ctx.count("history:first-run-stopped")


def count_wide(ctx, cfg):
    if cfg.get("_wide"):
        ctx.count("wholerun:wide-configs")
        for a in cfg.get("wide_applied", []):
            ctx.count("wide:" + a["tag"] + ":" + ".".join(str(x) for x in a["path"][-2:]) + "=" + str(a["value"])[:40])
            ctx.nontrivial.add(("wide", a["tag"], str(a["path"][-1]), str(a["value"])[:30]))


def replay_c08(ctx, inp):
    cfg = inp["wholerun"]["cfg"]
    mode = cfg.get("_mode", {"debug": True, "processes": 1})
    if cfg.get("_history"):
        print("history: an earlier run in the same folder differs in", cfg["_history"]["what"])
        res = W.run_after(cfg["_history"]["prev"], cfg, debug=mode["debug"], processes=mode["processes"], trace=True)
    else:
        res = W.run_config(cfg, debug=mode["debug"], processes=mode["processes"], trace=True)
    try:
        print("whole run rc", res.rc)
        for tr in res.trace:
            oracle_c08(ctx, cfg, tr["prog"], tr["events"],
                       lambda sig, what, info: ctx.violate(sig, what, {"wholerun": {"prop": "C08", "cfg": cfg, "where": info}}))
    finally:
        res.cleanup()


# ------------------------------------------------------------------------------------------------
# C10
# ------------------------------------------------------------------------------------------------
COL_COST = "Daily Cost ($)"
COL_REP = "Daily Repair Cost ($)"
COL_NAT = "Daily Natural Repair Cost ($)"
COL_METH = "{method} Deployment Cost ($)"


def check_columns():
    """the column names are the simulator's own constants"""
    from harness import shim

    shim.install()
    from constants.output_file_constants import TIMESERIES_COL_ACCESSORS as tca

    return (tca.COST, tca.REP_COST, tca.NAT_REP_COST, tca.METH_DAILY_DEPLOY_COST)


def oracle_c10(ctx, cfg, res, prog, sim, events, violate):
    col_cost, col_rep, col_nat, col_meth = check_columns()
    deploy, surveys, wx, plancost, repairs = index_events(events)
    workable = survey_workable(events, cfg)
    ts = res.timeseries(prog, sim)
    if ts is None:
        ctx.note("no timeseries for %s/%s" % (prog, sim))
        return 0
    methods = [p for p in cfg["programs"] if p["name"] == prog][0]["methods"]
    total = 0.0
    n_eval = 0
    for d, row in enumerate(ts):
        cols_sum = 0.0
        for method in methods:
            m = cfg["methods"][method]
            dep = deploy.get((d, method))
            info = {"prog": prog, "sim": sim, "day": d, "method": method, "deploy": dep, "row": {k: row[k] for k in row if "Cost" in k}}
            if dep is None:
                violate("C10:wholerun:method-not-deployed", "no deploy_crews call seen for a method on a simulated day", info)
                continue
            ctype, unit = expected_select(m["cost"])
            if (dep[11], dep[12]) != (ctype, unit):
                violate("C10:wholerun:wrong-cost-type", "cost type / unit cost not as configured", info)
            stationary = m["deployment_type"] == "stationary"
            n_crews, crews_how = cfg_crews(cfg, method)
            if n_crews is None:
                ctx.count("skipped:upfront(crew estimate with per-site overrides)")
            evs = surveys.get((d, method), [])
            if ctype == "site":
                pc = plancost.get((d, method), {})
                exp = 0.0
                for e in evs:
                    if e[11]:   # survey complete
                        # the site's survey cost by the configuration: the per-site override column of the
                        # sites file if there is one, else the method's per_site cost (site totals are
                        # conserved by the propagation to equipment groups)
                        sc = cfg_site_cost(cfg, method, e[3])
                        if sc is None:
                            ctx.count("skipped:site-cost(override column not understood)")
                            sc = pc.get(e[3], 0.0)
                        elif e[3] in pc and pc[e[3]] != sc:
                            violate("C10:wholerun:site-cost-not-as-configured",
                                    "a site's survey cost differs from what the configuration gives it", dict(info, site=e[3], configured=sc, used=pc[e[3]]))
                        exp += sc if sc != 0 else unit
                n_done = sum(1 for e in evs if e[11])
                ctx.nontrivial.add(("wr-site", method, min(n_done, 3), any(e[11] and e[14] for e in evs),
                                    any((not e[13]) for e in evs), any(e[12] and not e[11] for e in evs)))
                if any(e[11] and e[14] for e in evs):
                    ctx.count("wholerun:completed-survey-exhausts-crew")
                if dep[4] != exp:
                    exhausted = any(e[11] and e[14] for e in evs)
                    sig = "C10:per_site:completed-survey-not-charged:crew-exhausted" if (dep[4] < exp and exhausted) else \
                        "C10:per_site:charged-without-completion" if dep[4] > exp else "C10:per_site:other"
                    info["expected"] = exp
                    violate(sig, "whole run: per-site deployment cost != sum of site costs of the surveys completed that day", info)
            elif stationary:
                exp = unit * len(dep[3])
                ctx.nontrivial.add(("wr-stationary", method, min(len(dep[3]), 3)))
                if dep[4] != exp:
                    info["expected"] = exp
                    violate("C10:per_day:stationary-not-per-planned-site", "whole run: stationary per-day cost != unit cost x planned sites", info)
            else:
                # "deployed crew-day" (reading fixed in DESIGN 5.10): a crew that was sent to at least one
                # site whose weather allowed work -- computed from the weather, not from the code's
                # site_visit flag
                crews = {e[4] for e in evs if workable.get(id(e)) is not False}
                idle = {c for c in crews if all((ee[8] == 0 and ee[10] == ee[9] and not ee[11]) for ee in evs if ee[4] == c)}
                if idle:
                    ctx.count("wholerun:crew-deployed-without-travel")
                exp = unit * len(crews)
                ctx.nontrivial.add(("wr-day", method, len(crews)))
                if dep[4] != exp:
                    info["expected"] = exp
                    violate("C10:per_day:not-per-deployed-crew", "whole run: per-day cost != unit cost x crews that visited a site", info)
            col = _f(row.get(col_meth.format(method=method)))
            exp_col = dep[4] + (m["cost"].get("upfront", 0) * (n_crews if n_crews is not None else dep[9]) if d == 0 else 0)
            if col != exp_col:
                info["expected_column"] = exp_col
                sig = ("C10:upfront:first-day-not-upfront-times-crews" if d == 0 else
                       "C10:upfront:not-exactly-once" if (col - dep[4]) != 0 else "C10:row:method-columns")
                violate(sig, "whole run: method deployment-cost column != deployment cost (+ upfront x crews on day 0)", info)
            cols_sum += col
            n_eval += 1
        rep_ev = sum(e[3] for e in repairs.get(d, []) if e[2] == "program")
        nat_ev = sum(e[3] for e in repairs.get(d, []) if e[2] == "natural")
        info = {"prog": prog, "sim": sim, "day": d, "row": {k: row[k] for k in row if "Cost" in k}, "booked": [rep_ev, nat_ev]}
        if _f(row[col_rep]) != rep_ev or _f(row[col_nat]) != nat_ev:
            violate("C10:repair:not-once", "whole run: repair cost columns != amounts booked by the repairs of that day", info)
        if _f(row[col_cost]) != cols_sum + _f(row[col_rep]):
            violate("C10:row:cost-not-sum", "whole run: daily cost != sum of method deployment columns + repair cost", info)
        if not methods and (_f(row[col_cost]) != 0 or _f(row[col_rep]) != 0):
            violate("C10:no-methods:cost-nonzero", "whole run: a program without methods has a non-zero cost", info)
        total += _f(row[col_cost])
        n_eval += 1
    # repairs, from the records the run wrote (not from the wrapped code path): every leak repaired by
    # the program has "Date Repaired or Expired" = day after its last active day, so its cost must be
    # in the repair column of the day before that date -- exactly once -- and nowhere else; natural
    # repairs likewise in the natural column only
    em = res.emissions(prog, sim) or []
    from collections import Counter

    prog_days, nat_days = Counter(), Counter()
    for r in em:
        if r.get("Status") != "repaired":
            continue
        d = res.day_index(r.get("Date Repaired or Expired"))
        if d is None:
            continue
        if r.get("Tagged By") == "natural":
            nat_days[d - 1] += 1
        else:
            prog_days[d - 1] += 1
    costs = [float(c) for c in cfg["repair_cost"]]
    ctx.nontrivial.add(("wr-repairs", min(sum(prog_days.values()), 5), len(costs) > 1))
    for d, row in enumerate(ts):
        for (col, days, kind) in ((col_rep, prog_days, "program"), (col_nat, nat_days, "natural")):
            n = days.get(d, 0)
            got = _f(row[col])
            ok = sums_of(costs, n)
            info = {"prog": prog, "sim": sim, "day": d, "kind": kind, "column": got, "records_repaired_that_day": n,
                    "configured_costs": costs}
            if ok is not None and got not in ok:
                violate("C10:repair:not-once", "whole run: %s repair cost column != one configured repair cost per leak the "
                        "emissions summary shows as repaired on that day" % kind, info)
            booked = [e for e in repairs.get(d, []) if e[2] == kind]
            if 0.0 not in costs and len(booked) != n:
                violate("C10:repair:not-once", "whole run: number of %s repair bookings on a day != number of records repaired that day" % kind, info)
            if any(e[3] not in costs for e in booked):
                violate("C10:repair:amount-not-configured", "whole run: a booked repair amount is not one of the configured repair costs", info)
            n_eval += 1
    if any(d < 0 or d >= len(ts) for d in list(prog_days) + list(nat_days)):
        violate("C10:repair:wrong-day", "whole run: a record's repair date lies outside the simulated days",
                {"prog": prog, "sim": sim})
    # summary file
    summ = res.summary("Timeseries Summary") or []
    for r in summ:
        if r.get("Program Name") == prog and str(r.get("Simulation")) == str(sim):
            if abs(_f(r.get("Total Cost ($)")) - total) > 1e-6 * max(1.0, abs(total)):
                violate("C10:summary:total-cost", "Timeseries Summary total cost != sum of the daily costs",
                        {"prog": prog, "sim": sim, "summary": r.get("Total Cost ($)"), "sum": total})
    return n_eval


def run_c10(ctx):
    n = ctx.pick(2, 16)
    cfgs = make_cfgs(ctx, n, "c10")
    results = run_cfgs(ctx, cfgs)
    try:
        for cfg, res in zip(cfgs, results):
            crashed(ctx, cfg, res)
            expected = {(p["name"], sim) for p in cfg["programs"] for sim in range(cfg["n_sims"])}
            seen = {(tr["prog"], tr["sim"]) for tr in res.trace}
            if res.rc == 0 and expected - seen:
                ctx.broke("whole run: no trace for %s" % sorted(expected - seen), "seed %s" % cfg["_verif_seed"])
            for tr in res.trace:
                def violate(sig, what, info, cfg=cfg):
                    ctx.violate(sig, what, {"wholerun": {"prop": "C10", "cfg": cfg, "where": info}})
                try:
                    ctx.evaluations += oracle_c10(ctx, cfg, res, tr["prog"], tr["sim"], tr["events"], violate)
                except Exception as e:   # noqa: BLE001
                    import traceback

                    ctx.broke("whole-run oracle C10 could not read the run (seed %s)" % cfg["_verif_seed"],
                              "%s: %s\n%s" % (type(e).__name__, e, traceback.format_exc()[-800:]))
            ctx.count("wholerun:mode-" + ("pool" if cfg.get("_mode") else "debug"))
            count_wide(ctx, cfg)
            count_history(ctx, cfg, res)
            ctx.traces += 1
            ctx.count("wholerun:configs")
    finally:
        for res in results:
            res.cleanup()


def replay_c10(ctx, inp):
    cfg = inp["wholerun"]["cfg"]
    mode = cfg.get("_mode", {"debug": True, "processes": 1})
    if cfg.get("_history"):
        print("history: an earlier run in the same folder differs in", cfg["_history"]["what"])
        res = W.run_after(cfg["_history"]["prev"], cfg, debug=mode["debug"], processes=mode["processes"], trace=True)
    else:
        res = W.run_config(cfg, debug=mode["debug"], processes=mode["processes"], trace=True)
    try:
        print("whole run rc", res.rc)
        for tr in res.trace:
            oracle_c10(ctx, cfg, res, tr["prog"], tr["sim"], tr["events"],
                       lambda sig, what, info: ctx.violate(sig, what, {"wholerun": {"prop": "C10", "cfg": cfg, "where": info}}))
    finally:
        res.cleanup()
