"""Whole-simulation stage of C08 and C10: generated configurations are executed by the REAL simulator
(harness/wholerun.py, worker process with observation-only wrappers) and the clauses of the two
properties are evaluated on the wrapper trace and the timeseries / summary files the run wrote.

C08: per (day, method, crew): remaining minutes >= 0, crew starts with 60*min(workday, daylight)
(from the configuration, not from the code), travel + survey minutes + trip home <= that budget,
crew ids within the method's crew count; a visited site had cube values inside the envelope and
check_weather's verdict equals the envelope test; an unworkable site is left untouched.
C10: per day: each method's deployment-cost column = per-site charges of the surveys completed that
day / unit cost x crews that visited a site / unit cost x planned sites (stationary) + upfront x crews
on day 0; daily cost = sum of the method columns + repair cost; repair / natural repair columns =
sums of the booked amounts seen by the wrapper; one booking per repaired leak; a program without
methods costs nothing; Timeseries Summary total = sum of the daily costs.
"""
from __future__ import annotations

import concurrent.futures
import random

from harness import wholerun as W


# ------------------------------------------------------------------------------------------------
# running configurations
# ------------------------------------------------------------------------------------------------
def make_cfgs(ctx, n, flavour):
    cfgs = []
    for k in range(n):
        seed = ctx.rng.randrange(1 << 30)
        rng = random.Random(seed)
        ov = {"ndays": rng.choice([120, 200]) if ctx.quick else rng.choice([120, 200, 400])}
        if flavour == "c08":
            ov["consider_weather"] = (k % 3 != 2)
        else:
            ov["consider_weather"] = (k % 2 == 1)
        cfg = W.make_config(rng, **ov)
        names = [p["name"] for p in cfg["programs"]]
        if "P_fix" not in names and (k % 2 == 0):
            cfg["programs"] = cfg["programs"] + [{"name": "P_fix", "methods": ["FIX", "OGI_FU2"]}]
        if flavour == "c10" and k % 2 == 0:
            # the shape named in the property: a survey that uses up the crew's day to the minute
            cfg["methods"]["OGI"].update({"survey_time": 420, "max_workday": 8, "t_bw_sites": [30.0],
                                          "consider_daylight": False})
        cfg["_verif_seed"] = seed
        cfgs.append(cfg)
    return cfgs


def run_cfgs(ctx, cfgs):
    workers = 2 if ctx.quick else 4
    with concurrent.futures.ThreadPoolExecutor(max_workers=workers) as ex:
        return list(ex.map(lambda c: W.run_config(c, debug=True, processes=1, trace=True), cfgs))


def _f(x):
    if x is None or x == "":
        return 0.0
    return float(x)


def expected_budget(cfg, method):
    m = cfg["methods"][method]
    w = m.get("max_workday", 24) if m["deployment_type"] != "stationary" else m.get("max_workday", 24)
    if m.get("consider_daylight", False):
        dl = cfg.get("daylight")
        dl = 14.0 if dl is None else dl
        return 60 * min(w, dl)
    return 60 * w


def expected_select(cost):
    pd = cost.get("per_day", 0)
    ps = cost.get("per_site")
    if pd > 0:
        return "day", pd
    if ps is not None and ps > 0:
        return "site", ps
    return "day", 0


def index_events(events):
    deploy, surveys, wx, plancost, repairs = {}, {}, {}, {}, {}
    for e in events:
        k = e[0]
        if k == "deploy":
            deploy[(e[1], e[2])] = e
        elif k == "survey":
            surveys.setdefault((e[1], e[2]), []).append(e)
        elif k == "wx":
            wx.setdefault((e[1], e[2], e[3]), []).append(e)
        elif k == "plancost":
            plancost[(e[1], e[2])] = e[3]
        elif k == "repaircost":
            repairs.setdefault(e[1], []).append(e)
    return deploy, surveys, wx, plancost, repairs


# ------------------------------------------------------------------------------------------------
# C08
# ------------------------------------------------------------------------------------------------
def oracle_c08(ctx, cfg, prog, events, violate):
    deploy, surveys, wx, plancost, repairs = index_events(events)
    n_visits = 0
    for (day, method), evs in surveys.items():
        dep = deploy.get((day, method))
        budget = expected_budget(cfg, method)
        m = cfg["methods"][method]
        n_crews = 1 if m["deployment_type"] == "stationary" else m["crew_count"]
        per_crew = {}
        wx_used = {}
        for e in evs:
            (_, _, _, site, crew, r0, r1, s_time, travel, p0, p1, complete, in_prog, visited, last, wchk) = e
            n_visits += 1
            st = per_crew.setdefault(crew, {"spent": 0, "home": 0, "first": r0})
            info = {"prog": prog, "day": day, "method": method, "site": site, "event": e, "budget": budget}
            if r0 < 0 or r1 < 0:
                violate("C08:wholerun:negative-remaining", "a crew's remaining minutes are negative", info)
            if not (0 <= crew < n_crews):
                violate("C08:wholerun:more-crews-than-available", "crew id outside the method's crew count", info)
            today = p1 - p0
            st["spent"] += travel + today
            if complete or today > 0:
                st["home"] = travel
            if wchk:
                lst = wx.get((day, method, site), [])
                i = wx_used.get(site, 0)
                w = lst[i] if i < len(lst) else None
                wx_used[site] = i + 1
                if w is None or w[5] is None:
                    ctx.count("wholerun:wx-event-missing")
                else:
                    (_, _, _, _, verdict, t, wi, pr, env) = w
                    inside = env[0] <= t <= env[1] and env[2] <= wi <= env[3] and env[4] <= pr <= env[5]
                    ctx.count("wholerun:visit-weather-" + ("ok" if inside else "bad"))
                    ctx.nontrivial.add(("wr-wx", inside, t < env[0] or t > env[1], wi > env[3], pr > env[5]))
                    info["weather"] = w
                    if visited and not inside:
                        violate("C08:wholerun:visited-outside-envelope", "site visited although the weather at its cell is outside the envelope", info)
                    if verdict != inside:
                        violate("C08:wholerun:check-weather-verdict", "check_weather's verdict differs from the envelope test on the cube values", info)
                    if not inside and (p1 != p0 or complete or r1 != r0 or visited):
                        violate("C08:wholerun:unworkable-not-untouched", "unworkable site: report or crew changed", info)
            elif not visited:
                violate("C08:wholerun:not-visited-without-weather", "site not visited although weather is not considered", info)
        for crew, st in per_crew.items():
            info = {"prog": prog, "day": day, "method": method, "crew": crew, "budget": budget, "events": evs}
            if st["first"] != budget:
                violate("C08:wholerun:budget-not-min-workday-daylight", "crew does not start the day with 60*min(workday, daylight)", info)
            if st["spent"] + st["home"] > budget:
                violate("C08:wholerun:crew-minutes-exceed-budget", "travel + survey minutes + trip home of a crew exceed the day budget", info)
            ctx.nontrivial.add(("wr-crew", method, st["spent"] + st["home"] == budget, len(evs) > 1))
        if len(per_crew) > n_crews or (dep is not None and dep[10] > n_crews):
            violate("C08:wholerun:more-crews-than-available", "more crews deployed than the method has",
                    {"prog": prog, "day": day, "method": method})
    return n_visits


def run_c08(ctx):
    n = ctx.pick(2, 16)
    cfgs = make_cfgs(ctx, n, "c08")
    results = run_cfgs(ctx, cfgs)
    try:
        for cfg, res in zip(cfgs, results):
            if res.rc != 0:
                ctx.note("whole run rc=%s for seed %s (skipped): %s" % (res.rc, cfg["_verif_seed"], res.log[-300:].replace("\n", " | ")))
                ctx.count("wholerun:run-failed")
                continue
            for tr in res.trace:
                def violate(sig, what, info, cfg=cfg):
                    ctx.violate(sig, what, {"wholerun": {"prop": "C08", "cfg": cfg, "where": info}})
                nv = oracle_c08(ctx, cfg, tr["prog"], tr["events"], violate)
                ctx.evaluations += nv
            ctx.traces += 1
            ctx.count("wholerun:configs")
    finally:
        for res in results:
            res.cleanup()


def replay_c08(ctx, inp):
    cfg = inp["wholerun"]["cfg"]
    res = W.run_config(cfg, debug=True, processes=1, trace=True)
    try:
        print("whole run rc", res.rc)
        for tr in res.trace:
            oracle_c08(ctx, cfg, tr["prog"], tr["events"],
                       lambda sig, what, info: ctx.violate(sig, what, {"wholerun": {"prop": "C08", "cfg": cfg, "where": info}}))
    finally:
        res.cleanup()


# ------------------------------------------------------------------------------------------------
# C10
# ------------------------------------------------------------------------------------------------
COL_COST = "Daily Cost ($)"
COL_REP = "Daily Repair Cost ($)"
COL_NAT = "Daily Natural Repair Cost ($)"
COL_METH = "{method} Deployment Cost ($)"


def check_columns():
    """the column names are the simulator's own constants"""
    from harness import shim

    shim.install()
    from constants.output_file_constants import TIMESERIES_COL_ACCESSORS as tca

    return (tca.COST, tca.REP_COST, tca.NAT_REP_COST, tca.METH_DAILY_DEPLOY_COST)


def oracle_c10(ctx, cfg, res, prog, sim, events, violate):
    col_cost, col_rep, col_nat, col_meth = check_columns()
    deploy, surveys, wx, plancost, repairs = index_events(events)
    ts = res.timeseries(prog, sim)
    if ts is None:
        ctx.note("no timeseries for %s/%s" % (prog, sim))
        return 0
    methods = [p for p in cfg["programs"] if p["name"] == prog][0]["methods"]
    total = 0.0
    n_eval = 0
    for d, row in enumerate(ts):
        cols_sum = 0.0
        for method in methods:
            m = cfg["methods"][method]
            dep = deploy.get((d, method))
            info = {"prog": prog, "sim": sim, "day": d, "method": method, "deploy": dep, "row": {k: row[k] for k in row if "Cost" in k}}
            if dep is None:
                violate("C10:wholerun:method-not-deployed", "no deploy_crews call seen for a method on a simulated day", info)
                continue
            ctype, unit = expected_select(m["cost"])
            if (dep[11], dep[12]) != (ctype, unit):
                violate("C10:wholerun:wrong-cost-type", "cost type / unit cost not as configured", info)
            stationary = m["deployment_type"] == "stationary"
            n_crews = 1 if stationary else m["crew_count"]
            evs = surveys.get((d, method), [])
            if ctype == "site":
                pc = plancost.get((d, method), {})
                exp = 0.0
                for e in evs:
                    if e[11]:   # survey complete
                        sc = pc.get(e[3], 0.0)
                        exp += sc if sc != 0 else unit
                n_done = sum(1 for e in evs if e[11])
                ctx.nontrivial.add(("wr-site", method, min(n_done, 3), any(e[11] and e[14] for e in evs),
                                    any((not e[13]) for e in evs), any(e[12] and not e[11] for e in evs)))
                if any(e[11] and e[14] for e in evs):
                    ctx.count("wholerun:completed-survey-exhausts-crew")
                if dep[4] != exp:
                    exhausted = any(e[11] and e[14] for e in evs)
                    sig = "C10:per_site:completed-survey-not-charged:crew-exhausted" if (dep[4] < exp and exhausted) else \
                        "C10:per_site:charged-without-completion" if dep[4] > exp else "C10:per_site:other"
                    info["expected"] = exp
                    violate(sig, "whole run: per-site deployment cost != sum of site costs of the surveys completed that day", info)
            elif stationary:
                exp = unit * len(dep[3])
                ctx.nontrivial.add(("wr-stationary", method, min(len(dep[3]), 3)))
                if dep[4] != exp:
                    info["expected"] = exp
                    violate("C10:per_day:stationary-not-per-planned-site", "whole run: stationary per-day cost != unit cost x planned sites", info)
            else:
                crews = {e[4] for e in evs if e[13]}
                exp = unit * len(crews)
                ctx.nontrivial.add(("wr-day", method, len(crews)))
                if dep[4] != exp:
                    info["expected"] = exp
                    violate("C10:per_day:not-per-deployed-crew", "whole run: per-day cost != unit cost x crews that visited a site", info)
            col = _f(row.get(col_meth.format(method=method)))
            exp_col = dep[4] + (m["cost"].get("upfront", 0) * n_crews if d == 0 else 0)
            if col != exp_col:
                info["expected_column"] = exp_col
                sig = "C10:upfront:not-exactly-once" if (col - dep[4]) != 0 and d != 0 else "C10:row:method-columns"
                violate(sig, "whole run: method deployment-cost column != deployment cost (+ upfront x crews on day 0)", info)
            cols_sum += col
            n_eval += 1
        rep_ev = sum(e[3] for e in repairs.get(d, []) if e[2] == "program")
        nat_ev = sum(e[3] for e in repairs.get(d, []) if e[2] == "natural")
        info = {"prog": prog, "sim": sim, "day": d, "row": {k: row[k] for k in row if "Cost" in k}, "booked": [rep_ev, nat_ev]}
        if _f(row[col_rep]) != rep_ev or _f(row[col_nat]) != nat_ev:
            violate("C10:repair:not-once", "whole run: repair cost columns != amounts booked by the repairs of that day", info)
        if _f(row[col_cost]) != cols_sum + _f(row[col_rep]):
            violate("C10:row:cost-not-sum", "whole run: daily cost != sum of method deployment columns + repair cost", info)
        if not methods and (_f(row[col_cost]) != 0 or _f(row[col_rep]) != 0):
            violate("C10:no-methods:cost-nonzero", "whole run: a program without methods has a non-zero cost", info)
        total += _f(row[col_cost])
        n_eval += 1
    # one booking per program-repaired leak
    em = res.emissions(prog, sim) or []
    try:
        from constants.output_file_constants import EMIS_DATA_COL_ACCESSORS as eca

        n_prog_rep = sum(1 for r in em if r.get(eca.STATUS) == "repaired" and r.get(eca.TAGGED_BY) not in ("natural", "", None, "N/A"))
        n_booked = sum(1 for evs in repairs.values() for e in evs if e[2] == "program")
        ctx.nontrivial.add(("wr-repairs", min(n_prog_rep, 5)))
        if n_prog_rep != n_booked:
            violate("C10:repair:not-once", "whole run: number of repair-cost bookings != number of leaks repaired by the program",
                    {"prog": prog, "sim": sim, "repaired_by_program": n_prog_rep, "bookings": n_booked})
    except ImportError:
        pass
    # summary file
    summ = res.summary("Timeseries Summary") or []
    for r in summ:
        if r.get("Program Name") == prog and str(r.get("Simulation")) == str(sim):
            if abs(_f(r.get("Total Cost ($)")) - total) > 1e-6 * max(1.0, abs(total)):
                violate("C10:summary:total-cost", "Timeseries Summary total cost != sum of the daily costs",
                        {"prog": prog, "sim": sim, "summary": r.get("Total Cost ($)"), "sum": total})
    return n_eval


def run_c10(ctx):
    n = ctx.pick(2, 16)
    cfgs = make_cfgs(ctx, n, "c10")
    results = run_cfgs(ctx, cfgs)
    try:
        for cfg, res in zip(cfgs, results):
            if res.rc != 0:
                ctx.note("whole run rc=%s for seed %s (skipped): %s" % (res.rc, cfg["_verif_seed"], res.log[-300:].replace("\n", " | ")))
                ctx.count("wholerun:run-failed")
                continue
            for tr in res.trace:
                def violate(sig, what, info, cfg=cfg):
                    ctx.violate(sig, what, {"wholerun": {"prop": "C10", "cfg": cfg, "where": info}})
                ctx.evaluations += oracle_c10(ctx, cfg, res, tr["prog"], tr["sim"], tr["events"], violate)
            ctx.traces += 1
            ctx.count("wholerun:configs")
    finally:
        for res in results:
            res.cleanup()


def replay_c10(ctx, inp):
    cfg = inp["wholerun"]["cfg"]
    res = W.run_config(cfg, debug=True, processes=1, trace=True)
    try:
        print("whole run rc", res.rc)
        for tr in res.trace:
            oracle_c10(ctx, cfg, res, tr["prog"], tr["sim"], tr["events"],
                       lambda sig, what, info: ctx.violate(sig, what, {"wholerun": {"prop": "C10", "cfg": cfg, "where": info}}))
    finally:
        res.cleanup()
