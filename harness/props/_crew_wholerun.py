def run_c08(ctx):
    ctx.note("whole-run stage not yet built")
def run_c10(ctx):
    ctx.note("whole-run stage not yet built")
