"""C14 — summary files aggregate each program-simulation's own outputs, once each.

Lean: Props/C14.lean over Model/Summary.lean (name regexes, kept marker, summarize, estimate-minus-
correction join on the key, outer merge, mark/clear, batches of five, the batch loop, cost summary,
the mapper's statistics with NumPy's percentile left uninterpreted).
Tie: the REAL SimulationManager batch loop + SummaryOutputManager + summary_outputs/_helpers/_mapper
are run over generated program folders (adapters/summary.py) with os.scandir permuted per call; the
recorded listings drive drv_summary; after every batch the two summary files and the folder
contents, and at the end the cost summary, are compared with the model as keyed collections.
Oracle (independent of the model): every (program, simulation) once per summary file; every
statistic recomputed from that pair's own generated data; estimate = max(own estimate - own
correction, 0); the two cost formulas; equal results under a second, different enumeration order.
All numbers live on a grid on which the float pipeline is exact (integers, power-of-two row counts
and interval lengths), so nothing is compared with a tolerance.
"""
from __future__ import annotations

import datetime as dt
import json
from fractions import Fraction

from harness import core

MANIFEST_ENTRY = {
    "text": "Lean theorems over an executable model of the summary aggregation: C14_partial (for every program list without the two reserved names and every world the real code accepts, every simulation count, both retention settings and every enumeration order of every directory scan, the run completes and both summary tables are a permutation of one row per (program, simulation) computed from that pair's own files), guard_exact / C14_rejected (the run raises exactly when some pair wrote a file the statistics reject; for the mapper's statistics an estimate file without data rows), runAll_closed_form, once_each, own_files_only, perm_invariant, retention_invariant, estimate_floor, estJoin_perm_invariant, cost_ratios, cost_once_each, concrete_mit_cell / concrete_cost_cell / cost_ratios_concrete (the two cost columns are the pair's own sum of mitigated emissions and sum of daily cost), batch_sizes_sum, batch_sizes_le_five, batch_sims_eq_range, yearly_shares_complete / window_complete / C14_yearly_partial / C14_yearly (the yearly shares of a frame add up to its values, leap years and records without end date included), year_length / feb_length (calendar facts of the model's ordinals), genAll_frame / legacy_rows_preserved (rows of earlier batches are carried over unchanged and new rows do not depend on them), contribution_measured / contribution_same_type / contribution_fallback / fallback_is_not_mean_of_type_means (extrapolation of the estimate to unmeasured sites: own type's measured average, else the average over all measured sites, which is not the mean of the type means), mem_yearsOf / C14_years_complete / planner_years_lose_the_last_year (the summaries are built for every calendar year of the period, over which the yearly cells add up to the values; the planner's whole-year list loses the last year), runInFolder_eq_runAll / C14_history / uncleared_folder_keeps_stale_rows (run-history level: initialize_outputs clears the folder, so after any history of runs from any prior folder state the tables hold exactly the last run's pairs; without the clean-up every old row survives). C14_counterexample, C14_counterexample_logs, C14_counterexample_zero_rows refute the unrestricted statement (program named kept..., program named Logs, a file without rows); C14_yearly proves share completeness for closed and open-ended records of the repaired code (e320a70). The model is tied to the real SimulationManager batch loops (debug and multiprocessing), SummaryOutputManager, summary_outputs, summary_output_helpers, summary_output_mapper and batch_simulations by running them over generated program folders with os.scandir permuted independently per call and comparing both summary files and the folder contents after every batch and the cost summary at the end with the compiled model driven by the recorded listings (single runs through the real initialize_outputs and histories of two or three runs into the same output folder, the model keeping its folder state), and with the theorem-level run function on the same world; a direct oracle recomputes every statistic from the pair's own generated data and re-runs every world under a second enumeration order.",
    "design_ref": "DESIGN.md 5.14",
    "note": "trusted: Lean kernel + propext/Classical.choice/Quot.sound; the hand-written model (tied by sampled correspondence, not proof); harness adapter and generators; pandas read_csv/to_csv, merge, groupby and NumPy's percentile as reference semantics (the percentile is an uninterpreted function of the column in the model and is evaluated with NumPy on the column the model names); numbers restricted to a grid on which float arithmetic is exact (CSV float round-trip drift of non-dyadic values is outside the model); row order inside a summary file and the Summary Files switches are not modelled (one world per switch setting is compared per run); a rejected file stops the real run inside a call while the model only flags the call",
    "technique": "Lean 4 closed-form/permutation proofs over a directory-listing model + differential correspondence with the real aggregation code under permuted os.scandir + direct recomputation oracle",
}

MODULE = "LdarModel.Props.C14"
FILE = "LdarModel/Props/C14.lean"

POOL = ["P_A", "P_OGI_2", "A", "A_1", "unkept", "P_Logs", "x_12_y", "P_7_", "alt-FWA", "Prog.B", "P_kept_late", "B2",
        "NA", "nan", "007", "P", "P_1", "P_1_2", "_lead", "P_timeseries", "emissions_summary", "x.csv", "logs", "KEPT",
        "Kept_x", "P_none_2", "1_2_3"]
RESERVED = ["keptA", "kept", "Logs"]
# names pandas' read_csv takes for missing values / numbers when a summary file is read back
NA_LIKE = ["NA", "None", "nan", "null", "NULL", "NaN", "<NA>"]


# ----------------------------------------------------------------------------------------------
# generators (exact grid)
# ----------------------------------------------------------------------------------------------
def D(s):
    return None if s is None else dt.date.fromisoformat(s)


def iso(d):
    return None if d is None else d.isoformat()


ctx_boundary = [0, 0]
MULTI_TYPE_P = [0.5]  # share of estimate files with several site types (quick: lower, they are slow to summarise)

# (measured sites, unmeasured sites) per site type of an estimate file
EST_LAYOUTS = [
    [(1, 0), (1, 1), (2, 0), (0, 2)],
    [(2, 1), (2, 0), (4, 2), (0, 1), (0, 3)],
    [(1, 0), (1, 0), (2, 1), (4, 0), (0, 1)],
    [(1, 1), (2, 1), (1, 0), (0, 1)],
    [(2, 0), (2, 2), (4, 0), (0, 2)],
    [(4, 0), (0, 2)],
    [(1, 0), (1, 0), (0, 1)],
    [(0, 2), (0, 1)],
]


def boundary_days(years):
    """Dec 31 / Jan 1, Feb 28 / Feb 29 or Mar 1-1 / Mar 1 of every simulated year and its neighbours"""
    out = []
    for y in range(years[0] - 1, years[-1] + 1):
        out += [dt.date(y, 12, 31), dt.date(y + 1, 1, 1), dt.date(y + 1, 2, 28),
                dt.date(y + 1, 3, 1) - dt.timedelta(days=1), dt.date(y + 1, 3, 1)]
    return out


def boundary_interval(rng, years, hi):
    """a closed interval of power-of-two length that starts or ends on a boundary day, straddles New
    Year by one day, or covers a whole (leap) year"""
    days = boundary_days(years)
    for _ in range(20):
        r = rng.random()
        if r < 0.2:      # Dec 31 -> Jan 1
            y = rng.choice(range(years[0] - 1, years[-1]))
            start, end = dt.date(y, 12, 31), dt.date(y + 1, 1, 1)
        elif r < 0.4:    # covers every day of a simulated year: 512 or 1024 days from just before it
            y = rng.choice(years)
            start = dt.date(y, 1, 1) - dt.timedelta(days=rng.choice([0, 1, 2, 31]))
            end = start + dt.timedelta(days=rng.choice([512, 1024]) - 1)
        elif r < 0.7:
            end = rng.choice(days)
            start = end - dt.timedelta(days=2 ** rng.randint(0, 9) - 1)
        else:
            start = rng.choice(days)
            end = start + dt.timedelta(days=2 ** rng.randint(0, 9) - 1)
        if end <= hi:
            return start, end
    return dt.date(years[-1], 12, 31), dt.date(years[-1], 12, 31)


def gen_intervals(rng, years, count, p_open=0.15, quirk=False):
    """`count` (start, end|None, zero_value) triples of one frame such that every yearly share the
    real code computes is dyadic: closed intervals have power-of-two lengths; an open end is taken by
    the code to be Dec 31 of the latest year recorded in the frame (any start or end date), so open
    rows start a power of two before that day.  quirk: every closed row ends before the last
    simulated year and the open rows start in it (the shape on which the unrepaired code divided by
    zero / by a negative day count, regression input of e320a70)."""
    lo = dt.date(years[0] - 1, 7, 1)
    hi = dt.date(years[-1], 12, 31)
    span = (hi - lo).days
    quirk = quirk and len(years) > 1
    n_open = sum(1 for _ in range(count) if rng.random() < p_open)
    if quirk and count >= 2:
        n_open = max(1, min(n_open, count - 1))
    closed = []
    for i in range(count - n_open):
        end = lo + dt.timedelta(days=rng.randint(0, span))
        if n_open and not quirk and i == 0:
            # the latest year of the frame is then the last simulated year
            end = dt.date(years[-1], 1, 1) + dt.timedelta(days=rng.randint(0, 364))
        if quirk and n_open:
            end = min(end, dt.date(years[-1] - 1, 12, 31) - dt.timedelta(days=rng.choice([0, 0, 1, 40])))
        start = end - dt.timedelta(days=2 ** rng.randint(0, 9) - 1)
        if not (n_open and (i == 0 or quirk)) and rng.random() < 0.35:
            start, end = boundary_interval(rng, years, hi)
            ctx_boundary[0] += 1
        closed.append((start, end, False))
    out = list(closed)
    if n_open:
        if closed and not quirk:
            last = dt.date(max(e.year for (_, e, _) in closed), 12, 31)
        elif closed:
            last = hi
        else:
            last = dt.date(rng.choice(years), 12, 31)
        for i in range(n_open):
            # the first open row starts in the year of `last` itself (that year is the latest of the frame);
            # in quirk mode it may start on Jan 1 (the unrepaired code divided by zero there)
            k = rng.randint(0, 8) if (i == 0 and (quirk or not closed)) else rng.randint(0, 9)
            start = last - dt.timedelta(days=2 ** k - 1)
            if quirk and i == 0 and rng.random() < 0.4:
                # Jan 1 of the year after the latest recorded end (start year = latest year = end year: the
                # share is the whole value whatever the length; the unrepaired code divided by zero here)
                start = dt.date(last.year, 1, 1) + dt.timedelta(days=rng.choice([0, 0, 1, 31]))
            out.append((start, None, False))
    rng.shuffle(out)
    return out


def gen_files(rng, years, with_est, quirk=False):
    n = rng.choice([1, 2, 2, 4, 4, 8])
    ts = [[rng.randint(0, 60), rng.randint(0, 40), rng.randint(0, 20), rng.choice([0, 0, 5, 10, 125, 1000])]
          for _ in range(n)]
    m = rng.choice([1, 2, 2, 4, 4, 8])
    emis = []
    for (start, end, zero) in gen_intervals(rng, years, m, quirk=quirk):
        if end is None:
            emis.append([0, 0 if zero else rng.randint(0, 90), rng.randint(0, 90), rng.randint(0, 1),
                         rng.randint(0, 20), iso(start), None, None])
        else:
            theory = end + dt.timedelta(days=2 ** rng.randint(0, 9) - 1)
            emis.append([1000 * rng.choice([0, 0, 1, 2, 3, 7]), rng.randint(0, 90), rng.randint(0, 90),
                         rng.randint(0, 1), rng.randint(0, 20), iso(start), iso(end), iso(theory)])
    f = {"ts": ts, "emis": emis, "est": None, "rep": None}
    if with_est:
        if rng.random() >= MULTI_TYPE_P[0]:
            a, b = rng.choice([0, 1, 2, 4]), rng.choice([0, 0, 1, 2])
            u0, u1 = rng.choice([0, 0, 1, 2]), rng.choice([0, 0, 1])
            sites = [(0, 1)] * a + [(1, 1)] * b + [(0, 0)] * u0 + [(1, 0)] * u1
        else:
            # several site types: unequal numbers of measured sites per type, types without any measured
            # site (they get the average over ALL measured sites), sites listed but not measured; the
            # counts keep every average dyadic (per type a power of two, in total a power of two)
            layout = rng.choice(EST_LAYOUTS)
            codes = rng.sample(range(0, 12), len(layout))
            sites = []
            for code, (m_cnt, u_cnt) in zip(codes, layout):
                sites += [(code, 1)] * m_cnt + [(code, 0)] * u_cnt
            ctx_boundary[1] += 1
        if not sites:
            sites = [(0, 1)]
        rng.shuffle(sites)
        est = []
        ids = rng.sample(range(1, 70), len(sites))
        for sid, (typ, meas) in zip(ids, sites):
            for (start, end, zero) in gen_intervals(rng, years, rng.randint(1, 3 if len(sites) <= 6 else 2), p_open=0.05):
                est.append([sid, typ, meas, 0 if zero else rng.randint(0, 120), iso(start), iso(end)])
        rng.shuffle(est)
        f["est"] = est
        r = rng.random()
        if r < 0.08:
            f["rep"] = "EMPTY"
        elif r < 0.16:
            f["rep"] = []
        else:
            f["rep"] = [[0 if zero else rng.randint(0, 160), iso(start), iso(end)]
                        for (start, end, zero) in gen_intervals(rng, years, rng.randint(1, 4), p_open=0.1)]
            if all(r[2] is not None for r in f["rep"]) and rng.random() < 0.4:
                # an emission repaired on / after the last survey date: zero span, nothing to remove
                d = rng.choice([dt.date(years[-1], 12, 31), dt.date(years[-1] + 1, 1, 1), dt.date(years[-1], 12, 30)])
                f["rep"].insert(rng.randint(0, len(f["rep"])), [0, iso(d), iso(d)])
    return f


def years_with_a_simulated_day(start, end):
    """every calendar year that contains at least one day of the period, read off the calendar"""
    out, d = [], start
    while d <= end:
        if d.year not in out:
            out.append(d.year)
        d = min(end, dt.date(d.year, 12, 31)) + dt.timedelta(days=1)
    return out


def gen_period(rng, years):
    """start / end date of the simulated period inside the calendar years `years`: whole years, a period
    that ends earlier in the calendar than it starts (Nov 1 .. Feb 28), exactly one year (Jun 1 .. May 31) and
    one day more, a leap-day start, a partial single year, one or two days around New Year"""
    y0, y1 = years[0], years[-1]
    leap = lambda y: (y % 4 == 0 and y % 100 != 0) or y % 400 == 0  # noqa: E731
    if y0 == y1:
        shapes = [(dt.date(y0, 1, 1), dt.date(y0, 12, 31)), (dt.date(y0, 3, 5), dt.date(y0, 9, 9)),
                  (dt.date(y0, 12, 31), dt.date(y0, 12, 31)), (dt.date(y0, 1, 1), dt.date(y0, 1, 2))]
        if leap(y0):
            shapes.append((dt.date(y0, 2, 29), dt.date(y0, 12, 30)))
    else:
        shapes = [(dt.date(y0, 1, 1), dt.date(y1, 12, 31)), (dt.date(y0, 11, 1), dt.date(y1, 2, 28)),
                  (dt.date(y0, 11, 1), dt.date(y1, 2, 28)), (dt.date(y0, 6, 1), dt.date(y1, 5, 31)),
                  (dt.date(y0, 6, 1), dt.date(y1, 6, 1)), (dt.date(y0, 12, 31), dt.date(y1, 1, 1)),
                  (dt.date(y0, 3, 1), dt.date(y1, 2, 28))]
        if leap(y0):
            shapes.append((dt.date(y0, 2, 29), dt.date(y1, 2, 28)))
    start, end = rng.choice(shapes)
    assert years_with_a_simulated_day(start, end) == list(years)
    return [start.isoformat(), end.isoformat()]


def variant_world(rng, a):
    """same program names, baseline and simulation count as `a`; other years, prices, retention,
    file contents and file formats"""
    b = gen_world(rng, n=a["n"])
    y0 = a["years"][0] + rng.choice([-1, 1])
    years = list(range(y0, y0 + (1 if len(a["years"]) > 1 else 2)))
    has_est = {p: rng.random() < 0.7 for p in a["programs"]}
    files = {"%s|%d" % (p, s): gen_files(rng, years, p != a["baseline"] and has_est[p])
             for p in a["programs"] for s in range(a["n"])}
    b.update({"programs": list(reversed(a["programs"])), "baseline": a["baseline"], "years": years, "files": files,
              "extras": {}, "keep_all": not a["keep_all"], "period": gen_period(rng, years),
              "econ": {p: [rng.choice([25, 30]), rng.choice([0.5, 4.0])] for p in a["programs"]}})
    return b


def gen_history(rng, steps):
    """worlds for consecutive runs into one output folder: overlapping program sets (a program may
    disappear or appear), other simulation counts (more, fewer, equal), retention settings, years"""
    pool = rng.sample(POOL, 3)
    worlds = []
    for i in range(steps):
        progs = [p for p in pool if rng.random() < 0.7] or [pool[0]]
        n = rng.choice([1, 3, 5, 6, 7, 11] if i else [3, 6, 7, 11])
        if i and rng.random() < 0.4:
            n = rng.choice([1, 2, 3])  # fewer simulations than before: stale rows could not be overwritten
        w = gen_world(rng, n=n, programs=progs)
        w["logs"] = True if i == 0 else w["logs"]
        worlds.append(w)
    return worlds


JUNK = {
    "Timeseries Summary.csv": "Program Name,Simulation,Total Cost ($)\nP_old,0,5\nP_none,0,7\n",
    "Emissions Summary.csv": "Program Name,Simulation\nP_old,0\nP_none,0\n",
    "Cost Summary.csv": "Program Name,Simulation\nP_old,0\n",
    "P_old/keptP_old_0_timeseries.csv": "Date\n2020-01-01\n",
    "P_none/P_none_9_timeseries.csv": "Date\n2020-01-01\n",
    "Summary Visualizations/plot.png": "x",
    "notes.txt": "x",
}


def gen_world(rng, n=None, reserved=None, quirk=False, base="P_none", est_without_rep=False, n_progs=None,
              programs=None):
    y0 = rng.choice([2020, 2022, 2023, 2024])
    years = list(range(y0, y0 + rng.choice([1, 1, 2, 3])))
    k = rng.choice([1, 2, 2, 3]) if n_progs is None else n_progs
    progs = rng.sample(POOL, k) if programs is None else list(programs)
    if reserved:
        progs = [p for p in progs[:-1] if p != reserved] + [reserved]
    programs = [base] + [p for p in progs if p != base]
    rng.shuffle(programs)
    if n is None:
        n = rng.randint(1, 12)
    has_est = {p: (p != base and rng.random() < 0.85) for p in programs}
    files, extras = {}, {}
    for p in programs:
        for s in range(n):
            with_est = has_est[p] and rng.random() < 0.9
            files["%s|%d" % (p, s)] = gen_files(rng, years, with_est, quirk=quirk and p != base)
            if est_without_rep and files["%s|%d" % (p, s)]["est"] is not None and rng.random() < 0.5:
                files["%s|%d" % (p, s)]["rep"] = None
            if rng.random() < 0.3:
                extras["%s|%d" % (p, s)] = [rng.choice(["timeseries.png", "notes.txt", "timeseries.csv.bak"])]
    return {"programs": programs, "baseline": base, "n": n, "keep_all": rng.random() < 0.5, "years": years,
            "period": gen_period(rng, years),
            "econ": {p: [rng.choice([25, 28, 30, 28, 0]), rng.choice([0.5, 1.0, 2.0, 4.0, 0.0])] for p in programs},
            "files": files, "extras": extras, "logs": rng.random() < 0.8,
            "format_seed": rng.choice([0, rng.randrange(1, 10 ** 6), rng.randrange(1, 10 ** 6)])}


# ----------------------------------------------------------------------------------------------
# model side: protocol lines from the events of the real run
# ----------------------------------------------------------------------------------------------
def enc_date(s):
    if s is None:
        return "-"
    d = D(s)
    return "[%d,%d,%d]" % (d.year, d.month, d.day)


def enc_rows(kind, rows):
    if kind == "ts":
        return "[" + ",".join("[%d,%d,%d,%d]" % tuple(r) for r in rows) + "]"
    if kind == "emis":
        return "[" + ",".join("[%d,%d,%d,%d,%d,%s,%s,%s]" % (r[0], r[1], r[2], r[3], r[4], enc_date(r[5]),
                                                              enc_date(r[6]), enc_date(r[7])) for r in rows) + "]"
    if kind == "est":
        return "[" + ",".join("[%d,%d,%d,%d,%s,%s]" % (r[0], r[1], r[2], r[3], enc_date(r[4]), enc_date(r[5]))
                              for r in rows) + "]"
    if kind == "rep":
        if rows == "EMPTY":
            return "[]"
        return "[" + ",".join("[%d,%s,%s]" % (r[0], enc_date(r[1]), enc_date(r[2])) for r in rows) + "]"
    return "[]"


def enc_list(xs):
    return "[" + ",".join(xs) + "]"


def reset_line(world):
    """the model computes the years of the run itself (`yearsOf`) from the configured period"""
    from harness.adapters import summary as S

    k = Fraction(S.kg_to_mmbtu())
    start, end = S.period_of(world)
    return "resetp %s %s %d %d" % (enc_date(start.isoformat()), enc_date(end.isoformat()), k.numerator, k.denominator)


def safe_model_lines(ctx, world, result, inp, step=0, history=False):
    """protocol lines for a world; an unexpected shape of the real run is a broken obligation and the
    world is still compared through the theorem-level run and judged by the oracle"""
    if result["error"] and result["error"].startswith("run:"):
        return [], []
    try:
        return model_lines(world, result, step, history)
    except (UnexpectedShape, AssertionError, KeyError, IndexError, ValueError) as e:
        ctx.broke("step-by-step correspondence with gen_summary_outputs", "%s: %s" % (type(e).__name__, e))
        ctx.count("unexpected-shape")
        crashed = bool(result["error"] and result["error"].startswith("gen:"))
        first = reset_line(world) if step == 0 else reset_line(world).replace("reset", "setrun", 1)
        return runall_lines(world, first, crashed)


def model_lines(world, result, step=0, history=False):
    """lines + for every line that is a query the tag under which its reply is compared"""
    from harness.adapters import summary as S

    # first run into a folder: a fresh model state; a later run of a history: the folder state of the
    # model is kept and `initout` (the model's initialize_outputs) is applied to it
    lines = [reset_line(world)] if step == 0 else [reset_line(world).replace("reset", "setrun", 1), "initout"]
    tags = [("expect", "ok")] * len(lines)
    made = set()
    crashed = False
    sw = switches(world)
    if world.get("logs", True):
        lines.append("mkdir Logs")
        tags.append(("expect", "ok"))
    g = 0
    for ev in result["events"]:
        if ev[0] == "write":
            _, p, s, written = ev
            if p not in made:
                made.add(p)
                lines.append("mkdir %s" % p)
                tags.append(("expect", "ok"))
            f = world["files"]["%s|%d" % (p, s)]
            for kind, name in written:
                lines.append("put %s %s %s %s" % (p, name, kind, enc_rows(kind, f.get(kind))))
                tags.append(("expect", "ok"))
        elif ev[0] == "gen-crash":
            # the real call raised: the model must flag the same folders (any enumeration order)
            lines.append("gen %d auto" % (1 if ev[1] else 0))
            tags.append(("expect", "crash:empty-file"))
            crashed = True
        else:
            _, clear, calls, snap = ev
            top = calls[0]
            assert top[0] == ".", calls[0]
            rest = calls[1:]
            visit = []
            i = 0
            while i < len(rest):
                d = rest[i][0]
                grp = []
                while i < len(rest) and rest[i][0] == d:
                    grp.append(rest[i][1])
                    i += 1
                # scans per folder: [TS] if enabled, [EMIS, EST, REP] if enabled, then mark/clear
                want = (1 if sw["ts"] else 0) + (3 if sw["emis"] else 0) + 1
                if len(grp) != want:
                    raise UnexpectedShape("gen_summary_outputs scanned folder %s %d times, %d expected from the "
                                          "summary switches" % (d, len(grp), want))
                mark = grp[-1]
                tsl = grp[0] if sw["ts"] else mark
                eml = grp[1 if sw["ts"] else 0:-1] if sw["emis"] else [mark, mark, mark]
                visit.append(enc_list([d] + [enc_list(x) for x in [tsl] + eml + [mark]]))
            lines.append("gen %d %s" % (1 if clear else 0, enc_list(visit)))
            tags.append(("expect", "ok"))
            for q, tag in (("table ts", "ts"), ("table emis", "emis"), ("dirs", "dirs")):
                lines.append(q)
                tags.append((tag, g))
            g += 1
    nb = [p for p in world["programs"] if p != world["baseline"]]
    econ = []
    for p in nb:
        gw, ng = Fraction(world["econ"][p][0]), Fraction(world["econ"][p][1])
        econ.append("[%s,%d,%d,%d,%d]" % (p, gw.numerator, gw.denominator, ng.numerator, ng.denominator))
    if not crashed and sw["cost"]:
        lines.append("cost %s %s" % (enc_list(nb), enc_list(econ)))
        tags.append(("cost", None))
    # the function the theorems are about (`runAll`: whole batch loop over the world) on the same world
    # (from whatever folder state the model is in: `runall` applies the model's initialize_outputs itself)
    lines.append(reset_line(world).replace("reset", "setrun", 1) if history else lines[0])
    tags.append(("expect", "ok"))
    for p in world["programs"]:
        for sidx in range(world["n"]):
            f = world["files"]["%s|%d" % (p, sidx)]
            lines.append("wsim %s %d %s %s %s %s" % (
                p, sidx, enc_rows("ts", f["ts"]), enc_rows("emis", f["emis"]),
                "-" if f.get("est") is None else enc_rows("est", f["est"]),
                "-" if f.get("rep") is None else enc_rows("rep", f["rep"])))
            tags.append(("expect", "ok"))
    lines.append("runall %s %d %d %d" % (enc_list(world["programs"]), world["n"], 1 if world["keep_all"] else 0,
                                          world["n"] % 2))
    tags.append(("expect", "crash:empty-file" if crashed else "ok"))
    if not crashed:
        for q, tag in (("table ts", "run-ts"), ("table emis", "run-emis"), ("dirs", "run-dirs")):
            lines.append(q)
            tags.append((tag, None))
    return lines, tags


class UnexpectedShape(Exception):
    """the real code no longer has the shape the step-by-step driver protocol assumes"""


def runall_lines(world, first_line, crashed):
    """only the theorem-level run of the model on the world (used when the step-by-step protocol
    cannot be built)"""
    lines, tags = [first_line], [("expect", "ok")]
    for p in world["programs"]:
        for sidx in range(world["n"]):
            f = world["files"]["%s|%d" % (p, sidx)]
            lines.append("wsim %s %d %s %s %s %s" % (
                p, sidx, enc_rows("ts", f["ts"]), enc_rows("emis", f["emis"]),
                "-" if f.get("est") is None else enc_rows("est", f["est"]),
                "-" if f.get("rep") is None else enc_rows("rep", f["rep"])))
            tags.append(("expect", "ok"))
    lines.append("runall %s %d %d %d" % (enc_list(world["programs"]), world["n"], 1 if world["keep_all"] else 0,
                                          world["n"] % 2))
    tags.append(("expect", "crash:empty-file" if crashed else "ok"))
    if not crashed:
        for q, tag in (("table ts", "run-ts"), ("table emis", "run-emis"), ("dirs", "run-dirs")):
            lines.append(q)
            tags.append((tag, None))
    return lines, tags


def switches(world):
    sw = world.get("summary_files") or {}
    return {"ts": sw.get("ts", True), "emis": sw.get("emis", True), "cost": sw.get("cost", True)}


_PCT = {}


def pct(col, q):
    import numpy as np

    key = (tuple(col), q)
    if key not in _PCT:
        _PCT[key] = Fraction(float(np.percentile(np.array(col), q, method="median_unbiased")))
    return _PCT[key]


def parse_val(tok):
    if tok.startswith("p"):
        q, col = tok[1:].split(":", 1)
        return pct(json.loads(col), int(q))
    if tok == "div0":
        return "div0"
    if tok == "nan":
        return None  # NaN is written as an empty cell
    a, b = tok.split("/")
    return Fraction(int(a), int(b))


def parse_model_table(reply):
    rows = []
    if reply.strip() == "":
        return rows
    for r in reply.split(";"):
        cells = r.split("|")
        prog, sim = cells[0].rsplit(":", 1)
        rows.append(((prog, sim), [parse_val(c) for c in cells[1:]]))
    return sorted(rows, key=lambda x: (x[0], str(x[1])))


def cell(text):
    if text is None or text == "":
        return None
    x = float(text)
    if x != x:
        return "nan"
    if x in (float("inf"), float("-inf")):
        return "inf"
    return Fraction(x)


def impl_table(rows, cols):
    if rows is None:
        return []
    out = []
    for r in rows:
        out.append(((r["Program Name"], str(r["Simulation"]).strip()), [cell(r.get(c)) for c in cols]))
    return sorted(out, key=lambda x: (x[0], str(x[1])))


def table_cols(world):
    from harness.adapters import summary as S

    return S.TS_STATS, S.emis_columns(world["years"])


def cost_equal(model_rows, impl_rows):
    """model: exact rationals; impl: floats produced by one correctly rounded operation each"""
    if [k for k, _ in model_rows] != [k for k, _ in impl_rows]:
        return False
    for (_, m), (_, i) in zip(model_rows, impl_rows):
        if m[0] != i[0] or m[1] != i[1]:
            return False
        if m[2] == "div0":
            if i[2] not in ("inf", "nan", None):  # pandas writes NaN (0/0) as an empty cell
                return False
        elif not isinstance(i[2], Fraction) or float(m[2]) != float(i[2]):
            return False
        if not isinstance(i[3], Fraction) or float(m[3]) != float(i[3]):
            return False
    return True


def cost_cols():
    from harness.adapters import summary as S

    return [S.csca.MITIGATION, S.csca.TOTAL_COST, S.csca.MITIGATION_RATIO, S.csca.COST_OF_MITIGATED_EMIS]


def correspond(ctx, world, result, replies, tags, inp):
    ts_cols, em_cols = table_cols(world)
    gens = [ev for ev in result["events"] if ev[0] == "gen"]
    ok = True
    for reply, (tag, arg) in zip(replies, tags):
        if tag == "expect":
            if reply != arg:
                ctx.disagree("summary/protocol", inp, reply, arg)
                ok = False
        elif tag in ("ts", "emis", "run-ts", "run-emis") and not switches(world)[tag[-2:] if tag.endswith("ts") else "emis"]:
            continue  # that summary file is switched off: nothing to compare
        elif tag in ("ts", "emis"):
            snap = gens[arg][3]
            mt = parse_model_table(reply)
            it = impl_table(snap[tag], ts_cols if tag == "ts" else em_cols)
            if mt != it:
                ctx.disagree("summary/%s-table after batch %d" % (tag, arg), inp, _short(mt), _short(it))
                ok = False
        elif tag == "dirs":
            snap = gens[arg][3]["dirs"]
            md = {}
            for part in reply.split(";"):
                d, _, names = part.partition("=")
                md[d] = sorted(n for n in names.split(",") if n)
            for p in world["programs"]:
                if (snap.get(p) or []) != md.get(p, []):
                    ctx.disagree("summary/folder %s after batch %d" % (p, arg), inp, md.get(p), snap.get(p))
                    ok = False
        elif tag in ("run-ts", "run-emis"):
            name = tag[4:]
            mt = parse_model_table(reply)
            it = impl_table(result["final"][name], ts_cols if name == "ts" else em_cols)
            if mt != it:
                ctx.disagree("summary/runAll %s-table" % name, inp, _short(mt), _short(it))
                ok = False
        elif tag == "run-dirs":
            md = {}
            for part in reply.split(";"):
                d, _, names = part.partition("=")
                md[d] = sorted(n for n in names.split(",") if n)
            extra = {"kept" * k + sim_name for key, sufs in world.get("extras", {}).items() for suf in sufs
                     for k in (0, 1)
                     for sim_name in ["%s_%s_%s" % (key.split("|")[0], key.split("|")[1], suf)]}
            for p in world["programs"]:
                got = [x for x in (result["final"]["dirs"].get(p) or []) if x not in extra]
                if got != md.get(p, []):
                    ctx.disagree("summary/runAll folder %s" % p, inp, md.get(p), got)
                    ok = False
        elif tag == "cost":
            mt = parse_model_table(reply)
            it = impl_table(result["final"]["cost"], cost_cols())
            if result["error"]:
                # no summary files (no program folder was summarised): the real code raises
                if mt:
                    ctx.disagree("summary/cost", inp, _short(mt), result["error"])
                    ok = False
            elif not cost_equal(mt, it):
                ctx.disagree("summary/cost", inp, _short(mt), _short(it))
                ok = False
    return ok


def _short(t):
    return [[list(k), [str(v) for v in row]] for k, row in t][:40]


# ----------------------------------------------------------------------------------------------
# direct oracle: recomputation from the pair's own generated data
# ----------------------------------------------------------------------------------------------
def o_yearly(rows, year):
    """rows = (value, start|None, end|None): value x days of [start, end] inside the year / days of
    [start, end]; a record without end date is still active when the data ends: it lasts until Dec 31
    of the latest year recorded in the frame (any start or end date)"""
    dates = [d for (_, s_, e) in rows for d in (s_, e) if d is not None]
    total = Fraction(0)
    for (v, s, e) in rows:
        if s is None:
            continue
        if e is None:
            e = dt.date(max(x.year for x in dates), 12, 31)
        if not (s.year <= year <= e.year):
            continue
        a = max(s, dt.date(year, 1, 1))
        b = min(e, dt.date(year, 12, 31))
        total += Fraction(v) * Fraction((b - a).days + 1, (e - s).days + 1)
    return total


def o_extrapolated(est, year):
    sites = {}
    for r in est:
        sites.setdefault(r[0], []).append(r)
    ann, typ, meas = {}, {}, {}
    for sid, rs in sites.items():
        ann[sid] = o_yearly([(r[3], D(r[4]), D(r[5])) for r in rs], year)
        typ[sid], meas[sid] = rs[0][1], bool(rs[0][2])
    measured = [s for s in sites if meas[s]]
    total = Fraction(0)
    for s in sites:
        if meas[s]:
            total += ann[s]
        else:
            same = [t for t in measured if typ[t] == typ[s]]
            pool = same if same else measured
            if pool:
                total += sum((ann[t] for t in pool), Fraction(0)) / len(pool)
    return total


def expected_rows(world, p, s):
    f = world["files"]["%s|%d" % (p, s)]
    ts = f["ts"]
    col = lambda i: [r[i] for r in ts]  # noqa: E731
    # a file without rows: mean and percentile are NaN (an empty cell) in the Timeseries Summary and 0 in
    # the Emissions Summary (missing cells are filled with 0 there)
    mean = lambda c, empty=None: Fraction(sum(c), len(c)) if c else empty  # noqa: E731
    opct = lambda c, q, empty=None: pct(c, q) if c else empty  # noqa: E731
    e, m, n, c = col(0), col(1), col(2), col(3)
    ts_row = [mean(e), mean(m), mean(n), opct(e, 95), opct(m, 95), opct(n, 95), opct(e, 5), opct(m, 5), opct(n, 5),
              mean(c), Fraction(sum(c)), opct(c, 95), opct(c, 5)]
    em = f["emis"]
    tv = [r[1] for r in em]
    tr = [r[4] for r in em]
    em_row = [Fraction(sum(r[0] for r in em)), Fraction(sum(tv)), Fraction(sum(r[2] for r in em)),
              Fraction(sum(r[1] for r in em if r[3])), Fraction(sum(r[1] for r in em if not r[3])),
              mean(tr, Fraction(0)), opct(tr, 95, Fraction(0)), opct(tr, 5, Fraction(0)), mean(tv, Fraction(0)),
              opct(tv, 95, Fraction(0)), opct(tv, 5, Fraction(0))]
    years = world["years"]
    em_row += [o_yearly([(r[0], D(r[6]), D(r[7])) for r in em], y) for y in years]
    em_row += [o_yearly([(r[1], D(r[5]), D(r[6])) for r in em], y) for y in years]
    for y in years:
        if f.get("est") is None:
            em_row.append(Fraction(0))
        else:
            rep = f.get("rep")
            rep_rows = [] if (rep is None or rep == "EMPTY") else [(r[0], D(r[1]), D(r[2])) for r in rep]
            if rep is None:
                em_row.append(Fraction(0))
            else:
                em_row.append(max(o_extrapolated(f["est"], y) - o_yearly(rep_rows, y), Fraction(0)))
    return ts_row, em_row


def reserved_class(p):
    if p.startswith("kept"):
        return "program-name-starts-with-kept"
    if p == "Logs":
        return "program-named-Logs"
    return None


def esca_cols(y):
    from harness.adapters import summary as S

    return [S.esca.T_ANN_MIT.format(y), S.esca.T_ANN_EMIS.format(y), S.esca.EST_ANN_EMIS.format(y)]


def once_each_violation(ctx, name, keys, want, inp):
    """keys != want.  The recorded reserved-name findings explain exactly one shape: every row of the
    reserved programs is missing and everything else is as wanted; any other shape is reported under
    its own signature"""
    ordinary = [k for k in want if reserved_class(k[0]) is None]
    if keys == ordinary:
        for cls in sorted({reserved_class(k[0]) for k in want if reserved_class(k[0])}):
            ctx.violate("C14:once-each:" + cls,
                        "%s summary: no row for any simulation of the program with the reserved name (%d rows for %d pairs)"
                        % (name, len(keys), len(want)), inp)
        return
    missing = [k for k in ordinary if k not in keys]
    if missing:
        sig = "C14:once-each:%s:missing" % name
    elif len(set(keys)) != len(keys):
        sig = "C14:once-each:%s:duplicate" % name
    else:
        sig = "C14:once-each:%s:unexpected" % name
    ctx.violate(sig, "%s summary: keys are not programs x [0,n) once each (missing %s, got %d rows for %d pairs)"
                % (name, missing[:4], len(keys), len(want)), inp)


def oracle(ctx, world, result, inp, second=None):
    from harness.adapters import summary as S

    ts_cols, em_cols = table_cols(world)
    n = world["n"]
    sw = switches(world)
    if result["error"] and result["error"].startswith("gen:"):
        zero = sorted("%s:%s" % (k, kind) for k, f in world["files"].items() for kind in ("est",)
                      if f.get(kind) == [])
        sig = "C14:crash:zero-row-file" if zero else "C14:crash:summarisation"
        ctx.violate(sig, "gen_summary_outputs raised %s: no summary file has any row of this batch or any later one "
                         "(files without data rows: %s)" % (result["error"][4:], zero[:3]), inp)
        return
    if result["error"] and result["error"].startswith("run:"):
        ctx.violate("C14:crash:batch-loop", "the batch loop raised outside gen_summary_outputs: %s" % result["error"][4:], inp)
        return
    from harness.adapters import summary as S0

    p_start, p_end = S0.period_of(world)
    want_years = years_with_a_simulated_day(p_start, p_end)
    if result.get("real_years") is not None and list(result["real_years"]) != want_years:
        ctx.violate("C14:years:list", "the summaries are built for the years %s, the period %s .. %s has simulated days in %s"
                    % (result["real_years"], p_start, p_end, want_years), inp)
    if result.get("mutated_inputs"):
        ctx.violate("C14:history:inputs-mutated", "the run changed the objects it was configured with (shared with every "
                    "other manager built from them): %s" % result["mutated_inputs"], inp)
    want = sorted((p, str(s)) for p in world["programs"] for s in range(n))
    tables = {"ts": impl_table(result["final"]["ts"], ts_cols), "emis": impl_table(result["final"]["emis"], em_cols)}
    for name, t in tables.items():
        if not sw[name]:
            continue
        rows = result["final"][name]
        if rows:
            header = list(rows[0].keys())
            expect_header = ["Program Name", "Simulation"] + list(ts_cols if name == "ts" else em_cols)
            for y in (want_years if name == "emis" else []):
                for c in (esca_cols(y)):
                    if c not in header:
                        ctx.violate("C14:years:missing-column", "Emissions Summary has no column %r although the period "
                                    "%s .. %s has simulated days in %d" % (c, p_start, p_end, y), inp)
            if header != expect_header:
                odd = [c for c in header if c not in expect_header] + [c for c in expect_header if c not in header]
                ctx.violate("C14:columns:%s" % name, "%s summary: columns are not the key and the configured statistics of "
                            "these years in mapper order (%s)" % (name, odd[:4] or "order differs"), inp)
        keys = sorted(k for k, _ in t)
        if keys != want:
            once_each_violation(ctx, name, keys, want, inp)
        for k, row in t:
            if k not in want:
                continue
            exp = expected_rows(world, k[0], int(k[1]))[0 if name == "ts" else 1]
            if row != exp:
                bad = [i for i, (a, b) in enumerate(zip(row, exp)) if a != b]
                cols = ts_cols if name == "ts" else em_cols
                if all("Estimated" in cols[i] and "Year" in cols[i] for i in bad):
                    sig = "C14:stat:estimate-minus-own-correction"
                elif all("Year" in cols[i] for i in bad):
                    sig = "C14:stat:yearly-share"
                else:
                    sig = "C14:stat:%s" % name
                ctx.violate(sig, "%s summary row of %s: %s is not the statistic of that pair's own files (got %s, own files give %s)"
                            % (name, list(k), [cols[i] for i in bad][:3], [str(row[i]) for i in bad][:3],
                               [str(exp[i]) for i in bad][:3]), inp)
            if name == "emis":
                # the yearly cells add up to what the pair's own records emitted, when all of them lie in the
                # years of the period (records that started earlier have a share before the period)
                recs = [(r[1], D(r[5]), D(r[6])) for r in world["files"]["%s|%s" % k]["emis"] if r[5] is not None]
                ys = [d.year for (_, a_, b_) in recs for d in (a_, b_) if d is not None]
                if recs and min(ys) >= want_years[0] and max(ys) <= want_years[-1]:
                    raw = {c: v for c, v in (result["final"]["emis"] and [
                        x for x in result["final"]["emis"] if (x["Program Name"], str(x["Simulation"]).strip()) == k][0].items())}
                    from harness.adapters import summary as S3
                    cells = [cell(raw.get(S3.esca.T_ANN_EMIS.format(y))) for y in want_years]
                    if all(isinstance(c, Fraction) for c in cells) and sum(cells) != sum(Fraction(v) for (v, _, _) in recs):
                        ctx.violate("C14:years:shares-do-not-add-up", "row %s: the 'Year Y \"True\" Emissions' cells of the years "
                                    "of the period add up to %s, the pair's own records emitted %s"
                                    % (list(k), sum(cells), sum(v for (v, _, _) in recs)), inp)
                    ctx.count("oracle_year_sums")
            ctx.count("oracle_rows")
    # cost summary
    nb = [p for p in world["programs"] if p != world["baseline"]]
    if not sw["cost"]:
        pass
    elif result["error"] is None:
        ct = impl_table(result["final"]["cost"], cost_cols())
        wantc = sorted((p, str(s)) for p in nb for s in range(n))
        keys = sorted(k for k, _ in ct)
        if keys != wantc:
            once_each_violation(ctx, "cost", keys, wantc, inp)
        kk = S.kg_to_mmbtu()
        for k, row in ct:
            if k not in wantc:
                continue
            f = world["files"]["%s|%s" % k]
            mit = sum(r[0] for r in f["emis"])
            cost = sum(r[3] for r in f["ts"])
            gwp, gas = world["econ"][k[0]]
            if row[0] != mit or row[1] != cost:
                ctx.violate("C14:cost:inputs", "cost summary row %s does not carry that pair's own totals" % list(k), inp)
                continue
            den = mit / 1000 * gwp
            if den == 0:
                good = row[2] in ("inf", "nan", None)
            else:
                good = isinstance(row[2], Fraction) and float(row[2]) == cost / den
            if not good:
                ctx.violate("C14:cost:ratio", "mitigation ratio of %s is not total cost / (mitigation/1000 x GWP)" % list(k), inp)
            if not (isinstance(row[3], Fraction) and float(row[3]) == mit * kk * gas):
                ctx.violate("C14:cost:value", "value of mitigated methane of %s is not mitigation x KG_TO_MMBTU x gas price" % list(k), inp)
    else:
        if all(reserved_class(p) for p in world["programs"]):
            sig = "C14:once-each:" + reserved_class(world["programs"][0])
        else:
            sig = "C14:cost:crash"
        ctx.violate(sig, "cost summary could not be produced: %s" % result["error"], inp)
    # the output folder holds this run and nothing of an earlier one
    if result["error"] is None and "top" in result["final"]:
        allowed = {p + "/" for p in world["programs"]} | {"Logs/", "parameters.yaml", "Timeseries Summary.csv",
                                                          "Emissions Summary.csv", "Cost Summary.csv"}
        stale = [x for x in result["final"]["top"] if x not in allowed]
        if stale:
            ctx.violate("C14:history:stale-folder-entry", "the output folder still holds entries that are not of this "
                        "run: %s" % stale[:4], inp)
    # retention: what is left in the program folders, from the configuration alone
    if result["error"] is None:
        from harness.adapters import summary as S2

        for p in world["programs"]:
            if reserved_class(p):
                continue
            kept_sims = range(n) if world["keep_all"] else range(min(5, n))
            exp = sorted("kept" + name for s_ in kept_sims for (_, name) in S2.planned_files(world, p, s_))
            got = result["final"]["dirs"].get(p) or []
            if got != exp:
                ctx.violate("C14:retention:folder-contents", "folder of %s: %d files left, the retention setting asks for %d "
                            "(all marked kept; first batch only unless all outputs are kept)" % (p, len(got), len(exp)), inp)
    # enumeration-order independence: a second run with another order of every listing
    if second is not None:
        for name, cols in (("ts", ts_cols), ("emis", em_cols), ("cost", cost_cols())):
            if not sw[name]:
                continue
            a = impl_table(result["final"][name], cols)
            b = impl_table(second["final"][name], cols)
            if a != b:
                diff = [k for (k, r) in a if (k, r) not in b][:3]
                ctx.violate("C14:perm:%s" % name, "%s summary differs between two enumeration orders of the same folders (rows %s)"
                            % (name, diff), inp)


# ----------------------------------------------------------------------------------------------
# unit-level correspondence: name regexes, kept marker, batching, ordinals
# ----------------------------------------------------------------------------------------------
year_expect = {}


def unit_lines(ctx):
    import re

    from harness.adapters import summary as _S  # noqa: F401  (installs the shims)
    from constants.file_processing_const import Multi_Sim_Output_Const as M
    from simulation.simulation_helpers import batch_simulations

    rng = ctx.rng
    alphabet = ["a", "b", "_", "_", "1", "7", "0", ".", "csv", "kept", "x", "timeseries.csv", "emissions_summary.csv",
                "estimated_emissions.csv", "estimated_repaired_emissions_to_remove.csv", "_12_", "P", "-"]
    names = {"a_1_b_2_csv", "_0_x.csv", "P_0_timeseries.csv", "keptP_0_timeseries.csv", "P_kept_0_timeseries.csv",
             "P_0_.csv", "P_0_abcsv", "P_0_a.csv", "P__0_timeseries.csv", "P_0__timeseries.csv", "0_timeseries.csv",
             "P_00_timeseries.csv", "timeseries.csv", "_1_timeseries.csv", "P_1_2_3_estimated_emissions.csv"}
    toks = ["P", "a", "kept", "keptP", "12", "7", "0", "007", "", "x.csv", "csv", "a.csv", "abcsv", "Logs", "1a",
            "timeseries.csv", "emissions", "summary.csv", "estimated", "emissions.csv", "repaired", "to", "remove.csv",
            "xtimeseries.csv", "timeseries.csvx"]
    for _ in range(ctx.pick(1500, 20000)):
        names.add("".join(rng.choice(alphabet) for _ in range(rng.randint(1, 7))))
        names.add("_".join(rng.choice(toks) for _ in range(rng.randint(1, 7))))
    names = sorted(n for n in names if n and " " not in n)
    lines, expect = [], []
    year_expect.clear()
    for nm in names:
        m = M.OUTPUTS_NAME_SIM_EXTRACTION_REGEX.match(nm)
        flags = "".join("1" if x else "0" for x in (
            M.TS_PATTERN.match(nm), M.EMIS_PATTERN.match(nm), M.EST_PATTERN.match(nm), M.EST_REP_PATTERN.match(nm),
            re.search(M.OUTPUT_KEEP_REGEX, nm)))
        lines.append("parse " + nm)
        expect.append(("%s %s %s" % (m.group(1), m.group(2), flags)) if m else "none " + flags)
        if m:
            ctx.count("unit:parse-match")
    for n in list(range(0, 60)) + [rng.randint(60, 5000) for _ in range(40)]:
        bs = batch_simulations(n)
        sims = [[b * 5 + i for i in range(c)] for b, c in enumerate(bs)]
        lines.append("batches %d" % n)
        expect.append(json.dumps(bs, separators=(",", ":")) + " " + json.dumps(sims, separators=(",", ":")))
    from harness.adapters import summary as _S2

    bd = [(1, 1), (2, 28), (3, 1), (5, 31), (6, 1), (11, 1), (12, 31)]
    for y0 in (2017, 2023, 2024):
        for dy in (0, 1, 2, 4):
            for (m0, d0) in bd + ([(2, 29)] if y0 == 2024 else []):
                for (m1, d1) in bd + ([(2, 29)] if (y0 + dy) in (2024, 2028) else []):
                    a, b = dt.date(y0, m0, d0), dt.date(y0 + dy, m1, d1)
                    if a > b:
                        continue
                    lines.append("years %s %s" % (enc_date(a.isoformat()), enc_date(b.isoformat())))
                    real = _S2.real_simulation_years(a, b)
                    expect.append(None)  # compared below on the first list only
                    year_expect[len(lines) - 1] = json.dumps(real, separators=(",", ":"))
    d = dt.date(1999, 12, 25)
    epoch = dt.date(1970, 1, 1).toordinal()
    while d < dt.date(2031, 1, 10):
        lines.append("ord %d %d %d" % (d.year, d.month, d.day))
        expect.append(str(d.toordinal() - epoch))
        d += dt.timedelta(days=1)
    return lines, expect


# ----------------------------------------------------------------------------------------------
def run_pair(world, seed):
    import random

    from harness.adapters import summary as S

    r1 = S.run_world(world, random.Random(seed), "shuffle")
    r2 = S.run_world(world, random.Random(seed + 7919), "reversed" if seed % 3 == 0 else "shuffle")
    return r1, r2


def nontrivial_key(world, result):
    bs = result["batches"]
    some_est = any(f.get("est") is not None for f in world["files"].values())
    return (world["n"], len(world["programs"]), world["keep_all"], len(bs), some_est, len(world["years"]),
            world.get("logs", True))


def run(ctx):
    ctx.rule = ("world = programs (2-4 names incl. underscores/digits/'kept' or 'Logs' inside the name), n simulations, "
                "retention flag, 1-3 years, per (program, simulation) generated timeseries / emissions / estimate / "
                "correction files on an exact grid, stray non-CSV files; every n in 1..12 (thorough: 1..17) x both "
                "retention settings at least once + random; each world is run twice under independently permuted "
                "os.scandir; non-trivial = at least one row summarised; distinct by (n, #programs, retention, #batches, "
                "estimates present, #years, Logs folder present, world kind); interval ends/starts are put on Dec 31 / Jan 1 / Feb 28 / "
                "Feb 29 / Mar 1, New-Year straddles and whole-(leap-)year covers on purpose; per-simulation files are written "
                "with float formatting, extra columns and shuffled column order; worlds with equal program names but other "
                "years / prices / contents run back to back in both orders and must repeat exactly; histories of 2-3 runs into "
                "every world has a simulated period (whole years, end earlier in the calendar than the start, exactly one year, leap-day start, days around New Year) from which the REAL calc_simulation_years computes the year list; estimate files with up to five site types, unequal measured counts, types without measured sites; the same output folder through the real initialize_outputs (other n / program sets / retention, junk in "
                "the folder before the first run) are judged after every run; evaluations = worlds + unit-level protocol lines (file "
                "names against the real regexes, batch_simulations 0..59 + random, calendar days 1999-12-25..2031-01-09)")
    MULTI_TYPE_P[0] = ctx.pick(0.25, 0.5)
    core.lean_stage(ctx, MODULE, FILE, drivers=["drv_summary"])
    drv = core.LeanDriver("drv_summary")

    # unit-level: regexes, batching, ordinals
    from harness.adapters import summary as S

    state0 = S.class_state()
    try:
        ul, ue = unit_lines(ctx)
    except Exception as e:  # a constant / regex the unit level reads is gone: broken obligation, go on
        ctx.broke("unit-level tie (regexes, kept marker, batch_simulations)", "%s: %s" % (type(e).__name__, e))
        ul, ue = [], []
    ur = drv.run(ul)
    for i, (line, exp, got) in enumerate(zip(ul, ue, ur)):
        ctx.evaluations += 1
        if exp is None:  # `years`: the model's first list against the real calc_simulation_years
            exp, got = year_expect[i], got.split(" ")[0]
            ctx.count("unit:years")
        if exp != got:
            ctx.disagree("summary/unit", {"line": line}, got, exp)
    ctx.count("unit_lines", len(ul))

    # worlds
    specs = []
    ns = list(range(1, 13)) if ctx.quick else list(range(1, 18))
    for n in ns:
        for keep in ((True, False) if (not ctx.quick or n in (5, 6, 11)) else (ctx.rng.random() < 0.5,)):
            specs.append({"n": n, "keep": keep})
    for _ in range(ctx.pick(3, 260)):
        specs.append({})
    worlds = []
    for sp in specs:
        w = gen_world(ctx.rng, n=sp.get("n"))
        if "keep" in sp:
            w["keep_all"] = sp["keep"]
        worlds.append((w, ctx.rng.randrange(10 ** 6), "random"))
    # witnesses of the recorded findings (and their neighbours), replayed on every run
    for res in RESERVED:
        w = gen_world(ctx.rng, n=ctx.rng.choice([1, 6, 7]), reserved=res)
        worlds.append((w, ctx.rng.randrange(10 ** 6), "reserved:" + res))
    for _ in range(ctx.pick(2, 12)):
        w = gen_world(ctx.rng, n=ctx.rng.choice([1, 2, 6]), quirk=True)
        worlds.append((w, ctx.rng.randrange(10 ** 6), "open-ended"))
    # program names read_csv would take for missing values / numbers when a summary is read back
    for name in (NA_LIKE if not ctx.quick else ctx.rng.sample(NA_LIKE, 2)):
        w = gen_world(ctx.rng, n=ctx.rng.choice([1, 6, 11]), reserved=name)
        worlds.append((w, ctx.rng.randrange(10 ** 6), "na-like-name"))
    for _ in range(ctx.pick(1, 4)):
        w = gen_world(ctx.rng, n=ctx.rng.choice([1, 6, 7]), reserved=ctx.rng.choice(["007", "12", "1e3", "0x1F"]),
                      base=ctx.rng.choice(["0", "5", "2024"]))
        worlds.append((w, ctx.rng.randrange(10 ** 6), "numeric-names"))
    # files without data rows: timeseries -> NaN cells, emissions -> a row of zeros, estimate -> the real code
    # raises (recorded finding) and the model must flag the same worlds
    for kind in (["ts", "emis", "est"] if not ctx.quick else ["est", ctx.rng.choice(["ts", "emis"])]):
        for _ in range(ctx.pick(1, 3)):
            w = gen_world(ctx.rng, n=ctx.rng.choice([1, 3, 6, 7]))
            cands = sorted(k for k, f in w["files"].items() if f.get(kind) is not None)
            if cands:
                w["files"][ctx.rng.choice(cands)][kind] = []
                worlds.append((w, ctx.rng.randrange(10 ** 6), "zero-rows"))
    # switches the model does not have: one summary file only, the multiprocessing loop; estimate without correction
    for sf in ({"ts": True, "emis": False, "cost": False}, {"ts": False, "emis": True, "cost": False}):
        w = gen_world(ctx.rng, n=ctx.rng.choice([2, 6, 7]))
        w["summary_files"] = sf
        worlds.append((w, ctx.rng.randrange(10 ** 6), "one-summary-file"))
    for _ in range(ctx.pick(1, 3)):
        w = gen_world(ctx.rng, n=ctx.rng.choice([2, 6, 11]))
        w["multiprocessing"] = True
        worlds.append((w, ctx.rng.randrange(10 ** 6), "multiprocessing-loop"))
    for _ in range(ctx.pick(1, 4)):
        w = gen_world(ctx.rng, n=ctx.rng.choice([2, 6]), est_without_rep=True)
        worlds.append((w, ctx.rng.randrange(10 ** 6), "estimate-without-correction"))

    # names / shapes: a run with the baseline program only; more programs than 4 x processes in the pool loop
    w = gen_world(ctx.rng, n=ctx.rng.choice([1, 6]), n_progs=0)
    worlds.append((w, ctx.rng.randrange(10 ** 6), "baseline-only"))
    if not ctx.quick:
        w = gen_world(ctx.rng, n=6, n_progs=9)
        w["multiprocessing"] = True
        worlds.append((w, ctx.rng.randrange(10 ** 6), "multiprocessing-loop"))
    # same-process history: worlds with the same program names but other years / prices / retention /
    # contents back to back, in both orders; every run is judged on its own and must repeat exactly
    history = []
    for _ in range(ctx.pick(1, 4)):
        a = gen_world(ctx.rng, n=ctx.rng.choice([2, 6, 7]))
        b = variant_world(ctx.rng, a)
        sa, sb = ctx.rng.randrange(10 ** 6), ctx.rng.randrange(10 ** 6)
        history.append((a, sa, b, sb))
        worlds += [(a, sa, "history-a"), (b, sb, "history-b"), (a, sa, "history-a-again"), (b, sb, "history-b-again")]

    all_lines, slices, runs = [], [], []
    for (w, seed, kind) in worlds:
        r1, r2 = run_pair(w, seed)
        lines, tags = safe_model_lines(ctx, w, r1, {"world": w, "perm_seed": seed, "kind": kind})
        slices.append((len(all_lines), len(lines), tags))
        all_lines += lines
        runs.append((w, seed, kind, r1, r2))
    # histories of runs into the SAME output folder through the real initialize_outputs: other
    # simulation counts / program sets / retention per run, an arbitrary folder state before the first
    # run; the model keeps its folder state across the runs; the oracle judges every run
    import random as _random

    hist_inputs = {}
    for h in range(ctx.pick(2, 14)):
        ws = gen_history(ctx.rng, ctx.rng.choice([2, 2, 3]))
        if h == 0:  # fewer simulations and fewer programs in the re-run, outputs not kept
            ws[0]["keep_all"], ws[1]["keep_all"] = False, False
            if ws[1]["n"] >= ws[0]["n"]:
                ws[1] = gen_world(ctx.rng, n=max(1, ws[0]["n"] - 4), programs=[p for p in ws[0]["programs"] if p != "P_none"][:1])
                ws[1]["keep_all"] = False
        seed = ctx.rng.randrange(10 ** 6)
        junk = JUNK if h % 2 == 0 else None
        rs1 = S.run_history(ws, _random.Random(seed), "shuffle", junk)
        rs2 = S.run_history(ws, _random.Random(seed + 7919), "shuffle", junk)
        for i, (w, r1, r2) in enumerate(zip(ws, rs1, rs2)):
            kind = "rerun-history"
            inp = {"history": ws, "step": i, "junk": junk is not None, "perm_seed": seed, "kind": kind, "world": w}
            lines, tags = safe_model_lines(ctx, w, r1, inp, step=i, history=True)
            slices.append((len(all_lines), len(lines), tags))
            all_lines += lines
            runs.append((w, seed, kind, r1, r2))
            hist_inputs[len(runs) - 1] = inp
        ctx.count("histories")
    replies = drv.run(all_lines)
    for idx, ((w, seed, kind, r1, r2), (start, cnt, tags)) in enumerate(zip(runs, slices)):
        inp = hist_inputs.get(idx) or {"world": w, "perm_seed": seed, "kind": kind}
        try:
            correspond(ctx, w, r1, replies[start:start + cnt], tags, inp)
            oracle(ctx, w, r1, inp, second=r2)
        except Exception as e:  # an output shape the comparison does not know: broken obligation, go on
            ctx.broke("comparison / oracle on a %s world" % kind, "%s: %s" % (type(e).__name__, e))
            ctx.disagree("summary/unreadable-output", inp, "%s: %s" % (type(e).__name__, e), "see world")
        ctx.evaluations += 1
        ctx.traces += 1
        if r1["final"]["ts"] or r1["final"]["emis"]:
            ctx.nontrivial.add(nontrivial_key(w, r1) + (kind.split(":")[0],))
        ctx.count("kind:" + kind.split(":")[0])
        ctx.count("n=%d" % w["n"])
        ctx.count("retention:" + ("keep-all" if w["keep_all"] else "clear-later-batches"))
        ctx.count("batches=%d" % len(r1["batches"]))
        ctx.count("gen_calls", sum(1 for ev in r1["events"] if ev[0] == "gen"))
        ctx.count("hypothesis:GoodProgs:" + ("holds" if not any(reserved_class(p) for p in w["programs"]) else "fails"))
    # history: the repeated run of a world equals its first run, whatever ran in between
    by_kind = {}
    for (w, seed, kind, r1, r2) in runs:
        if kind.startswith("history"):
            by_kind.setdefault((id(w), kind.replace("-again", "")), []).append((w, seed, r1))
    for (_, kind), rs in by_kind.items():
        if len(rs) == 2:
            (w, seed, first), (_, _, again) = rs
            ts_cols, em_cols = table_cols(w)
            for name, cols in (("ts", ts_cols), ("emis", em_cols), ("cost", cost_cols())):
                if impl_table(first["final"][name], cols) != impl_table(again["final"][name], cols) \
                        or first["final"]["dirs"] != again["final"]["dirs"]:
                    ctx.violate("C14:history:%s" % name, "%s summary (or the folders) of the same world differ between "
                                "two runs in one process with another world of the same program names in between" % name,
                                {"world": w, "perm_seed": seed, "kind": kind})
            ctx.count("history_pairs")
    state1 = S.class_state()
    if state1 != state0:
        diff = [k for k in state0 if state0[k] != state1.get(k)]
        ctx.violate("C14:history:class-level-state", "class-/module-level containers of the summary code changed during "
                    "the process: %s" % diff, {"before": state0, "after": state1})
    ctx.count("boundary_intervals", ctx_boundary[0])
    ctx.count("estimate_files_with_several_site_types", ctx_boundary[1])
    for (w, seed, kind, r1, r2) in runs[:3]:
        ctx.sample({"programs": w["programs"], "n": w["n"], "keep_all": w["keep_all"], "years": w["years"],
                    "batches": r1["batches"], "rows": len(r1["final"]["emis"] or [])})
    ctx.assumptions.append("numbers on an exact grid: integer cells, power-of-two row counts and interval lengths, "
                           "mitigation multiples of 1000, gas price a power of two")
    ctx.assumptions.append("NumPy's percentile(method=median_unbiased) evaluated on the column the model names")


def replay(ctx, data):
    inp = data.get("input", {})
    if "world" not in inp:
        print("replay: broken obligation / correspondence:", data.get("broken_obligations"),
              json.dumps(data.get("correspondence_disagreements"), default=str)[:3000])
        return 1
    if "history" in inp:
        import random

        from harness.adapters import summary as S

        junk = JUNK if inp.get("junk") else None
        rs1 = S.run_history(inp["history"], random.Random(inp.get("perm_seed", 0)), "shuffle", junk)
        rs2 = S.run_history(inp["history"], random.Random(inp.get("perm_seed", 0) + 7919), "shuffle", junk)
        for i, (w, r1, r2) in enumerate(zip(inp["history"], rs1, rs2)):
            before = len(ctx.violations)
            oracle(ctx, w, r1, {"world": "(see replay file)"}, second=r2)
            print("run %d into the same folder: programs %s n=%d keep_all=%s -> ts keys %s" % (
                i, w["programs"], w["n"], w["keep_all"],
                sorted((r["Program Name"], int(r["Simulation"])) for r in (r1["final"]["ts"] or []))[:12]))
            for v in ctx.violations[before:]:
                print("   oracle:", v["signature"], "-", v["what"][:200])
        return 1 if ctx.violations else 0
    w = inp["world"]
    r1, r2 = run_pair(w, inp.get("perm_seed", 0))
    oracle(ctx, w, r1, {"world": "(see replay file)"}, second=r2)
    print("programs:", w["programs"], "n:", w["n"], "keep_all:", w["keep_all"], "batches:", r1["batches"], "error:", r1["error"])
    for name in ("ts", "emis", "cost"):
        rows = r1["final"][name] or []
        print(name, "keys:", sorted((r["Program Name"], int(r["Simulation"])) for r in rows))
    for v in ctx.violations:
        print("oracle:", v["signature"], "-", v["what"])
    return 1 if ctx.violations else 0
